#!/venv/bin/python
"""Run a check against a mutated scratch copy of /repo/src (never touches /repo).

usage: tools/mutant.py PROP[,PROP..] FILE OLD NEW [--count N] [--tier quick] [--seed 0]
FILE is relative to src/ampform.  The scratch copy lives under /tmp and is removed.
Also: tools/mutant.py PROP --patch file.diff   (apply a git diff to the scratch copy)
"""
import argparse, os, shutil, subprocess, sys, tempfile
ap = argparse.ArgumentParser()
ap.add_argument("props"); ap.add_argument("file", nargs="?"); ap.add_argument("old", nargs="?"); ap.add_argument("new", nargs="?")
ap.add_argument("--count", type=int, default=1); ap.add_argument("--tier", default="quick"); ap.add_argument("--seed", default="0")
ap.add_argument("--patch"); ap.add_argument("--tail", type=int, default=6)
a = ap.parse_args()
d = tempfile.mkdtemp(prefix="ampform-mut-")
try:
    shutil.copytree("/repo/src", d + "/src")
    if a.patch:
        subprocess.run(["git", "init", "-q"], cwd=d, check=True)
        r = subprocess.run(["git", "apply", "--include=src/*", os.path.abspath(a.patch)], cwd=d)
        if r.returncode: sys.exit("patch does not apply")
    else:
        p = f"{d}/src/ampform/{a.file}"
        s = open(p).read()
        if s.count(a.old) != a.count:
            sys.exit(f"expected {a.count} occurrence(s) of OLD, found {s.count(a.old)}")
        open(p, "w").write(s.replace(a.old, a.new))
    env = dict(os.environ, VERIF_REPO=d, VERIF_EVIDENCE_DIR=d + "/evidence")
    rc_all = {}
    for prop in a.props.split(","):
        r = subprocess.run(["/verif/check", prop, "--tier", a.tier, "--seed", a.seed], env=env, capture_output=True, text=True)
        lines = [l[:260] for l in r.stdout.splitlines()]
        print("\n".join(lines[-a.tail:]))
        rc_all[prop] = r.returncode
    print("MUTANT RESULT:", rc_all, "(1 = caught)")
finally:
    shutil.rmtree(d, ignore_errors=True)
