#!/venv/bin/python
"""Validate an independently written breakage and file it under /verif/seeded/<name>/.

usage: tools/seeded.py NAME PROP[,PROP...] PATCH DEMO [--needs TEXT] [--tier quick] [--seeds "0 1"] [--skip-baseline]
Steps (all in a scratch git worktree of /repo under /tmp, removed afterwards):
  1. demo on the unchanged tree must exit 0      2. patch must apply      3. demo must exit != 0
  4. the pinned 302-test baseline must still pass  5. run the named checks with VERIF_REPO pointing at the worktree
"""
import argparse, json, os, shutil, subprocess, sys, tempfile, time

ap = argparse.ArgumentParser()
ap.add_argument("name"); ap.add_argument("props"); ap.add_argument("patch"); ap.add_argument("demo")
ap.add_argument("--needs", default=""); ap.add_argument("--tier", default="quick"); ap.add_argument("--seeds", default="0")
ap.add_argument("--skip-baseline", action="store_true"); ap.add_argument("--author", default="independent sub-agent (saw the property text only)")
a = ap.parse_args()
wt = tempfile.mkdtemp(prefix="ampform-seed-")
os.rmdir(wt)
res = {"name": a.name, "breaks_property": a.props.split(",")[0], "checks_run": a.props.split(","), "needs_to_manifest": a.needs, "author": a.author}
def run(cmd, **kw):
    return subprocess.run(cmd, capture_output=True, text=True, **kw)
try:
    r = run(["git", "-C", "/repo", "worktree", "add", "-q", "--detach", wt, "HEAD"])
    assert r.returncode == 0, r.stderr
    res["repo_head"] = run(["git", "-C", "/repo", "rev-parse", "--short", "HEAD"]).stdout.strip()
    env = dict(os.environ, PYTHONPATH=wt + "/src")
    d0 = run(["/venv/bin/python", "-W", "ignore", os.path.abspath(a.demo)], cwd=wt, env=env, timeout=900)
    res["demo_unchanged_exit"] = d0.returncode
    ap_ = run(["git", "-C", wt, "apply", os.path.abspath(a.patch)])
    res["patch_applies"] = ap_.returncode == 0
    if ap_.returncode:
        res["patch_error"] = ap_.stderr[-300:]
    d1 = run(["/venv/bin/python", "-W", "ignore", os.path.abspath(a.demo)], cwd=wt, env=env, timeout=900)
    res["demo_changed_exit"] = d1.returncode
    res["demo_changed_tail"] = (d1.stdout + d1.stderr)[-400:]
    if not a.skip_baseline:
        b = run(["/verif/tools/baseline.py"], env=dict(os.environ, VERIF_REPO=wt), timeout=1800)
        res["baseline"] = b.stdout.strip().splitlines()[:6]
        res["baseline_ok"] = b.returncode == 0
    checks = {}
    evid = wt + "/.evidence"
    for prop in a.props.split(","):
        for seed in a.seeds.split():
            t = time.time()
            c = run(["/verif/check", prop, "--tier", a.tier, "--seed", seed], env=dict(os.environ, VERIF_REPO=wt, VERIF_EVIDENCE_DIR=evid), timeout=7200)
            lines = c.stdout.splitlines()
            viol = [l[:300] for l in lines if l.startswith("VIOLATION")]
            checks[f"{prop}@seed{seed}"] = {"exit": c.returncode, "caught": c.returncode == 1, "n_violation_lines": len(viol), "first": viol[:2],
                                           "summary": next((l for l in reversed(lines) if l.startswith("[")), ""), "wall_s": round(time.time() - t, 1)}
    res["checks"] = checks
    res["caught_by"] = sorted({k.split("@")[0] for k, v in checks.items() if v["caught"]})
finally:
    subprocess.run(["git", "-C", "/repo", "worktree", "remove", "--force", wt], capture_output=True)
    shutil.rmtree(wt, ignore_errors=True)
valid = res.get("demo_unchanged_exit") == 0 and res.get("patch_applies") and res.get("demo_changed_exit") not in (0, None) and res.get("baseline_ok", a.skip_baseline)
res["valid_breakage"] = bool(valid)
out = f"/verif/seeded/{a.name}"
os.makedirs(out, exist_ok=True)
shutil.copy(a.patch, out + "/patch.diff")
shutil.copy(a.demo, out + "/demo.py")
json.dump(res, open(out + "/meta.json", "w"), indent=1)
print(json.dumps({k: res[k] for k in ("name", "valid_breakage", "demo_unchanged_exit", "demo_changed_exit", "baseline_ok", "caught_by") if k in res}))
for k, v in res.get("checks", {}).items():
    print(" ", k, "exit", v["exit"], v["summary"][:150])
