#!/venv/bin/python
"""Regenerate fixtures/reactions/*.json with qrules (NOT run by the checks).

qrules is part of the trusted base; caching its output does not weaken any check.
Each spec is generated in its own subprocess with a timeout so that an expensive
reaction cannot block the rest.  Usage: tools/make_fixtures.py [name-substring ...]
"""
from __future__ import annotations

import json
import subprocess
import sys
from pathlib import Path

ROOT = Path(__file__).resolve().parent.parent
OUT = ROOT / "fixtures" / "reactions"

# name -> kwargs of qrules.generate_transitions (formalism is added: both)
SPECS: dict[str, dict] = {
    "jpsi_gamma_pi0_pi0__f0": dict(
        initial_state="J/psi(1S)", final_state=["gamma", "pi0", "pi0"],
        allowed_intermediate_particles=["f(0)(980)", "f(0)(1500)"],
        allowed_interaction_types=["strong", "EM"]),
    "jpsi_gamma_pi0_pi0__f0_f2": dict(
        initial_state="J/psi(1S)", final_state=["gamma", "pi0", "pi0"],
        allowed_intermediate_particles=["f(0)(980)", "f(2)(1270)"],
        allowed_interaction_types=["strong", "EM"]),
    "jpsi_gamma_pi0_pi0__omega": dict(
        initial_state=[("J/psi(1S)", [1])], final_state=["gamma", "pi0", "pi0"],
        allowed_intermediate_particles=["omega(782)"]),
    "jpsi_gamma_pi0_pi0__omega_full": dict(
        initial_state="J/psi(1S)", final_state=["gamma", "pi0", "pi0"],
        allowed_intermediate_particles=["omega(782)"]),
    "jpsi_gamma_f0__2body": dict(
        initial_state="J/psi(1S)", final_state=["gamma", "f(0)(980)"]),
    "etac_lambda_lambdabar": dict(
        initial_state="eta(c)(1S)", final_state=["Lambda", "Lambda~"]),
    "jpsi_lambda_lambdabar": dict(
        initial_state="J/psi(1S)", final_state=["Lambda", "Lambda~"]),
    "jpsi_k0_sigmap_pbar__sigma1750": dict(
        initial_state=[("J/psi(1S)", [1])], final_state=["K0", "Sigma+", "p~"],
        allowed_intermediate_particles=["Sigma(1750)"],
        allowed_interaction_types=["strong"]),
    "jpsi_k0_sigmap_pbar__sigma1750_full": dict(
        initial_state="J/psi(1S)", final_state=["K0", "Sigma+", "p~"],
        allowed_intermediate_particles=["Sigma(1750)"],
        allowed_interaction_types=["strong"]),
    "jpsi_k0_sigmap_pbar__sigma1775_n1650": dict(
        initial_state="J/psi(1S)", final_state=["K0", "Sigma+", "p~"],
        allowed_intermediate_particles=["Sigma(1775)", "N(1650)"],
        allowed_interaction_types=["strong"]),
    "jpsi_pi0_pip_pim__rho": dict(
        initial_state="J/psi(1S)", final_state=["pi0", "pi+", "pi-"],
        allowed_intermediate_particles=["rho(770)"],
        allowed_interaction_types=["strong"]),
    "jpsi_pi0_pip_pim__rho0": dict(
        initial_state="J/psi(1S)", final_state=["pi0", "pi+", "pi-"],
        allowed_intermediate_particles=["rho(770)0"],
        allowed_interaction_types=["strong"]),
    "jpsi_pi0_pip_pim__rhop": dict(
        initial_state="J/psi(1S)", final_state=["pi0", "pi+", "pi-"],
        allowed_intermediate_particles=["rho(770)+"],
        allowed_interaction_types=["strong"]),
    "jpsi_pi0_pip_pim__rhom": dict(
        initial_state="J/psi(1S)", final_state=["pi0", "pi+", "pi-"],
        allowed_intermediate_particles=["rho(770)-"],
        allowed_interaction_types=["strong"]),
    "jpsi_pi0_pip_pim__rhop_rhom": dict(
        initial_state="J/psi(1S)", final_state=["pi0", "pi+", "pi-"],
        allowed_intermediate_particles=["rho(770)+", "rho(770)-"],
        allowed_interaction_types=["strong"]),
    "jpsi_p_pbar_pi0__n1440": dict(
        initial_state="J/psi(1S)", final_state=["p", "p~", "pi0"],
        allowed_intermediate_particles=["N(1440)+"],
        allowed_interaction_types=["strong"]),
    "jpsi_p_pbar_pi0__n1440_n1520": dict(
        initial_state="J/psi(1S)", final_state=["p", "p~", "pi0"],
        allowed_intermediate_particles=["N(1440)+", "N(1520)+"],
        allowed_interaction_types=["strong"]),
    "jpsi_p_pbar_pi0__n1440_both": dict(
        initial_state="J/psi(1S)", final_state=["p", "p~", "pi0"],
        allowed_intermediate_particles=["N(1440)"],
        allowed_interaction_types=["strong"]),
    "lambdac_p_km_pip__l1520_d1232_kst": dict(
        initial_state="Lambda(c)+", final_state=["p", "K-", "pi+"],
        allowed_intermediate_particles=["Lambda(1520)", "Delta(1232)++", "K*(892)0"]),
    "lambdac_p_km_pip__l1520_d1232": dict(
        initial_state="Lambda(c)+", final_state=["p", "K-", "pi+"],
        allowed_intermediate_particles=["Lambda(1520)", "Delta(1232)++"]),
    "lambdac_p_km_pip__l1520_l1670": dict(
        initial_state="Lambda(c)+", final_state=["p", "K-", "pi+"],
        allowed_intermediate_particles=["Lambda(1520)", "Lambda(1670)"]),
    "jpsi_p_pbar_pi0__n1440_n1520_bothcharges": dict(
        initial_state="J/psi(1S)", final_state=["p~", "p", "pi0"],
        allowed_intermediate_particles=["N(1440)+", "N(1520)~-"],
        allowed_interaction_types=["strong"]),
    "lambdac_p_km_pip__l1520": dict(
        initial_state="Lambda(c)+", final_state=["p", "K-", "pi+"],
        allowed_intermediate_particles=["Lambda(1520)"]),
    "lambdac_p_km_pip__kst": dict(
        initial_state="Lambda(c)+", final_state=["p", "K-", "pi+"],
        allowed_intermediate_particles=["K*(892)0"]),
    "lambdac_p_km_pip__d1232": dict(
        initial_state="Lambda(c)+", final_state=["p", "K-", "pi+"],
        allowed_intermediate_particles=["Delta(1232)++"]),
    "d0_km_pip_pi0__kst_rho": dict(
        initial_state="D0", final_state=["K-", "pi+", "pi0"],
        allowed_intermediate_particles=["K*(892)", "rho(770)"]),
    "d0_k0_kp_km__a0_phi": dict(
        initial_state="D0", final_state=["K~0", "K+", "K-"],
        allowed_intermediate_particles=["a(0)(980)", "phi(1020)"]),
    "etap_gamma_pip_pim__rho": dict(
        initial_state="eta'(958)", final_state=["gamma", "pi+", "pi-"],
        allowed_intermediate_particles=["rho(770)0"]),
    "tau_nu_pim_pi0__rho": dict(
        initial_state="tau-", final_state=["nu(tau)", "pi-", "pi0"],
        allowed_intermediate_particles=["rho(770)-"]),
    "psi2s_gamma_gamma_jpsi__chic1": dict(
        initial_state="psi(2S)", final_state=["gamma", "gamma", "J/psi(1S)"],
        allowed_intermediate_particles=["chi(c1)(1P)"]),
    "lambdab_jpsi_p_km__l1520": dict(
        initial_state="Lambda(b)0", final_state=["J/psi(1S)", "p", "K-"],
        allowed_intermediate_particles=["Lambda(1520)"]),
    "jpsi_kp_km_pip_pim__phi_f0": dict(
        initial_state="J/psi(1S)", final_state=["K+", "K-", "pi+", "pi-"],
        allowed_intermediate_particles=["phi(1020)", "f(0)(980)"],
        allowed_interaction_types=["strong"]),
    "jpsi_pi0_pi0_pip_pim__a1_rho": dict(
        initial_state=[("J/psi(1S)", [1])], final_state=["pi0", "pi0", "pi+", "pi-"],
        allowed_intermediate_particles=["a(1)(1260)+", "rho(770)0"],
        allowed_interaction_types=["strong"]),
    "d0_km_pip_pip_pim__kst_rho": dict(
        initial_state="D0", final_state=["K-", "pi+", "pi+", "pi-"],
        allowed_intermediate_particles=["K*(892)~0", "rho(770)0"]),
    "jpsi_gamma_eta_pi0_pi0__f0_a0": dict(
        initial_state=[("J/psi(1S)", [1])], final_state=["gamma", "eta", "pi0", "pi0"],
        allowed_intermediate_particles=["f(0)(980)", "eta(1405)"],
        allowed_interaction_types=["strong", "EM"]),
    "omega_pi0_pip_pim__rho": dict(
        initial_state="omega(782)", final_state=["pi0", "pi+", "pi-"],
        allowed_intermediate_particles=["rho(770)"], mass_conservation_factor=None),
    "xi_lambda_pim": dict(
        initial_state="Xi-", final_state=["Lambda", "pi-"]),
    "omegam_lambda_km": dict(
        initial_state="Omega-", final_state=["Lambda", "K-"]),
    "jpsi_xim_xibarp": dict(
        initial_state="J/psi(1S)", final_state=["Xi-", "Xi~+"]),
}

CHILD = r"""
import sys, json, logging
logging.disable(logging.WARNING)
import qrules, qrules.io
spec = json.loads(sys.argv[1]); out = sys.argv[2]
spec["initial_state"] = [tuple(x) if isinstance(x, list) else x for x in spec["initial_state"]] if isinstance(spec["initial_state"], list) else spec["initial_state"]
r = qrules.generate_transitions(**spec)
qrules.io.write(r, out)
r2 = qrules.io.load(out)
assert r2 == r, "round trip mismatch"
print(len(r.transitions), len({t.topology for t in r.transitions}))
"""


def main() -> int:
    OUT.mkdir(parents=True, exist_ok=True)
    filt = sys.argv[1:]
    jobs = []
    for name, spec in SPECS.items():
        if filt and not any(f in name for f in filt):
            continue
        for formalism, tag in (("helicity", "hel"), ("canonical-helicity", "can")):
            out = OUT / f"{name}.{tag}.json"
            if out.exists() and not filt:
                continue
            s = dict(spec, formalism=formalism)
            jobs.append((name, tag, out, s))
    procs = []
    index = {}
    for name, tag, out, s in jobs:
        p = subprocess.Popen(
            ["/venv/bin/python", "-W", "ignore", "-c", CHILD, json.dumps(s), str(out)],
            stdout=subprocess.PIPE, stderr=subprocess.PIPE, text=True)
        procs.append((name, tag, out, p))
        if len(procs) >= 14:
            _drain(procs, index)
    _drain(procs, index, final=True)
    for k, v in sorted(index.items()):
        print(k, v)
    return 0


def _drain(procs, index, final=False):
    while procs and (final or len(procs) >= 14):
        name, tag, out, p = procs.pop(0)
        try:
            so, se = p.communicate(timeout=1500)
            ok = p.returncode == 0
        except subprocess.TimeoutExpired:
            p.kill()
            so, se, ok = "", "timeout", False
        index[f"{name}.{tag}"] = so.strip() if ok else "FAILED " + se.strip().splitlines()[-1][:200] if se.strip() else "FAILED"
        if not ok and out.exists():
            out.unlink()


if __name__ == "__main__":
    sys.exit(main())
