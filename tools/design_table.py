#!/venv/bin/python
"""Rewrite the numeric columns of DESIGN.md section 7.4 from the committed evidence files."""
import json, re
from pathlib import Path
root = Path(__file__).resolve().parent.parent
p = root / "DESIGN.md"
s = p.read_text()
def fmt(n):
    return f"{n / 1000:.1f} k" if n >= 1000 else str(n)
out = []
for line in s.splitlines():
    m = re.match(r"^\| (C\d\d) \| (.*?) \| [^|]* \| [^|]* \| [^|]* \|$", line)
    if m and (root / "evidence" / f"{m.group(1)}.json").exists():
        e = json.loads((root / "evidence" / f"{m.group(1)}.json").read_text())
        line = f"| {m.group(1)} | {m.group(2)} | {fmt(e['coverage']['evaluations'])} | {e['coverage']['distinct_nontrivial']} | {e['wall_s']:.0f} s |"
    out.append(line)
p.write_text("\n".join(out) + "\n")
print("section 7.4 refreshed")
