#!/venv/bin/python
"""Validate MANIFEST.json and every evidence/*.json against the schemas."""
import json, sys, glob
import jsonschema
ok = True
m = json.load(open('/verif/MANIFEST.json'))
jsonschema.validate(m, json.load(open('/root/.vp/MANIFEST.schema.json')))
es = json.load(open('/root/.vp/EVIDENCE.schema.json'))
for c in m['checks']:
    f = c['evidence_file']
    try:
        jsonschema.validate(json.load(open(f)), es)
    except Exception as e:
        ok = False; print('BAD', f, str(e)[:200])
print('manifest ok;', len(m['checks']), 'checks; evidence', 'ok' if ok else 'NOT ok')
sys.exit(0 if ok else 1)
