#!/venv/bin/python
"""Write MANIFEST.json from the per-property metadata in vmon/props/*.py (META dicts)."""
import importlib
import json
import sys
from pathlib import Path

ROOT = Path(__file__).resolve().parent.parent
sys.path.insert(0, str(ROOT))
ALL = [f"C{i:02d}" for i in range(1, 21)]


def main():
    checks, na = [], []
    for pid in ALL:
        f = ROOT / "vmon" / "props" / f"{pid.lower()}.py"
        if not f.exists():
            na.append({"property_id": pid, "reason": "check not built yet (planned, see DESIGN.md section 2)"})
            continue
        src = f.read_text()
        meta = {}
        # META is a literal dict at module level; avoid importing ampform here
        import ast
        tree = ast.parse(src)
        for node in tree.body:
            if isinstance(node, ast.Assign) and getattr(node.targets[0], "id", None) == "META":
                meta = ast.literal_eval(node.value)
            if isinstance(node, ast.Assign) and getattr(node.targets[0], "id", None) == "LEVEL":
                level = ast.literal_eval(node.value)
        if meta.get("not_applicable"):
            na.append({"property_id": pid, "reason": meta["not_applicable"]})
            continue
        checks.append({
            "property_id": pid,
            "quick_cmd": f"./check {pid} --tier quick",
            "thorough_cmd": f"./check {pid} --tier thorough",
            "evidence_file": f"/verif/evidence/{pid}.json",
            "replay_cmd_template": f"./check {pid} --replay {{path}}",
            "engine": "vmon",
            "level_claimed": {"category": level, "text": meta["level_text"], "design_ref": meta.get("design_ref", f"DESIGN.md section 2, {pid}")},
            "level_note": meta["level_note"],
            "technique": meta["technique"],
        })
    manifest = {
        "version": 1,
        "setup_cmd": "/venv/bin/python -W ignore -m vmon.selfcheck",
        "hooks": {
            "guard": "AMPFORM_VERIF",
            "enable": "no source hooks are needed: every monitor attaches from outside to the ampform modules imported from /repo/src (editable install + sys.path[0]); checks export AMPFORM_VERIF=1 for any future guarded hook",
            "baseline_off_cmd": "cd /repo && env -u AMPFORM_VERIF /venv/bin/python -m pytest -ra -q -p no:cacheprovider --timeout=900 --continue-on-collection-errors",
            "source_commits": [],
            "add_only": True,
        },
        "engines": [{"name": "vmon", "path": "/verif/vmon", "serves_properties": [c["property_id"] for c in checks],
                     "kind_free_text": "runtime monitors (contracts on real functions, history checkers, metamorphic/differential observers) driven by generated, stress and fault-injection workloads in up to 16 worker processes"}],
        "checks": checks,
        "notes": "Exit codes: 0 held on everything explored, 1 VIOLATION (not listed in known_findings.json), 2 INCONCLUSIVE (deciding monitor not reached / floors not met / worker lost). Seeds via VERIF_SEED, tier via VERIF_TIER or --tier.",
        "not_applicable": na,
    }
    (ROOT / "MANIFEST.json").write_text(json.dumps(manifest, indent=1) + "\n")
    print(len(checks), "checks,", len(na), "not applicable")


main()
