#!/venv/bin/python
"""Run the repository's pinned suite (guard off) and compare with BASELINE.json stable_pass."""
import json, os, subprocess, sys, tempfile, xml.etree.ElementTree as ET
base = json.load(open("/root/.vp/BASELINE.json"))
out = tempfile.mktemp(suffix=".xml")
env = {k: v for k, v in os.environ.items() if k != "AMPFORM_VERIF"}
repo = os.environ.get("VERIF_REPO", "/repo")
if repo != "/repo":
    env["PYTHONPATH"] = repo + "/src"  # /venv has an editable install of /repo/src: a scratch copy must come first
subprocess.run(["/venv/bin/python", "-m", "pytest", "-ra", "-q", "-p", "no:cacheprovider", "--timeout=900",
                "--continue-on-collection-errors", f"--junitxml={out}"], cwd=repo, env=env,
               stdout=subprocess.DEVNULL, stderr=subprocess.DEVNULL)
passed = set()
for tc in ET.parse(out).getroot().iter("testcase"):
    if not any(ch.tag in ("failure", "error", "skipped") for ch in tc):
        passed.add(f"{tc.get('classname')}::{tc.get('name')}")
os.unlink(out)
want = set(base["stable_pass"])
missing = sorted(want - passed)
print(f"baseline: {len(want & passed)}/{len(want)} stable tests pass; newly passing: {len(passed - want)}")
for m in missing[:40]:
    print("  MISSING", m)
sys.exit(1 if missing else 0)
