#!/bin/sh
# usage: tools/sweep.sh TIER "SEEDS" "PROPS"   -- runs checks sequentially, prints one summary line each
TIER=${1:-quick}; SEEDS=${2:-"0 1 2 3 4"}; PROPS=${3:-"C01 C02 C03 C04 C05 C06 C07 C08 C09 C10 C11 C12 C13 C14 C15 C16 C17 C18 C19 C20"}
export VERIF_EVIDENCE_DIR=${VERIF_EVIDENCE_DIR:-$(pwd)/evidence}
for s in $SEEDS; do for p in $PROPS; do
  out=$(./check $p --tier $TIER --seed $s 2>&1); rc=$?
  echo "seed=$s rc=$rc $(echo "$out" | grep -E '^\[C' | tail -1)"
  [ $rc -ne 0 ] && echo "$out" | grep -E 'VIOLATION|INCONCLUSIVE' | cut -c1-400 | head -5
done; done
