"""Expression families for C16: members of one family collide in some cache key (identical str, or identical Python hash) but differ."""
from __future__ import annotations

import sympy as sp


class ScaledPhaseSpace:
    """A configured, picklable phase-space model whose *bound method* is used as ``phsp_factor`` (any callable
    (s, m1, m2) -> Expr is allowed): two instances give two different functions with one qualified name."""

    def __init__(self, scale):
        self.scale = scale   # exponent

    def rho(self, s, m1, m2):
        import ampform.dynamics as D
        return D.PhaseSpaceFactor(s, m1, m2) ** self.scale   # a power: does not cancel in rho(s)/rho(m0^2)


def registry() -> dict[str, sp.Expr]:
    import ampform.dynamics as D
    from ampform.kinematics.phasespace import Kallen, Kibble
    from ampform.sympy import PoolSum

    out: dict[str, sp.Expr] = {}
    # family "assume": symbols differing only in assumptions
    for tag, kw in (("plain", {}), ("real", {"real": True}), ("positive", {"positive": True}), ("integer", {"integer": True})):
        x = sp.Symbol("x", **kw)
        y = sp.Symbol("y", **kw)
        out[f"assume-kallen:{tag}"] = Kallen(x, y, 2)
        out[f"assume-q2:{tag}"] = D.BreakupMomentumSquared(x ** 2, y, y / 2)
        out[f"assume-sqrt:{tag}"] = D.PhaseSpaceFactorComplex(x, y, y)   # sqrt(x**2)-like simplifications depend on assumptions
    # family "attr": classes differing only in a non-SymPy attribute
    s, m0, w0, m1, m2, d = sp.symbols("s m0 Gamma0 m1 m2 d", nonnegative=True)
    for ph in ("PhaseSpaceFactor", "PhaseSpaceFactorSWave", "EqualMassPhaseSpaceFactor", "PhaseSpaceFactorAbs"):
        out[f"attr-width:{ph}"] = D.EnergyDependentWidth(s, m0, w0, m1, m2, 1, d, phsp_factor=getattr(D, ph))
        out[f"attr-bw:{ph}"] = D.relativistic_breit_wigner_with_ff(s, m0, w0, m1, m2, 2, d, phsp_factor=getattr(D, ph))
    # family "dummy": distinct Dummy symbols print alike
    for k in range(2):
        t = sp.Symbol("t", real=True) if k == 0 else sp.Symbol("t", positive=True)
        out[f"assume-sum:{k}"] = PoolSum(Kallen(t, sp.Symbol("i"), 1), (sp.Symbol("i"), (1, 2, 3)))
    # family "pyhash": unequal expressions (different strings too) with the same *Python* hash for every
    # PYTHONHASHSEED: CPython has hash(-1) == hash(-2), so trees differing only by Integer(-1) / Integer(-2) collide
    xr, yr = sp.symbols("x y", real=True)
    for tag, v in (("m1", -1), ("m2", -2)):
        out[f"pyhash-kallen:{tag}"] = Kallen(xr, yr, v)
        out[f"pyhash-q2:{tag}"] = D.BreakupMomentumSquared((xr + v) ** 2 + 5, yr, yr / 2)
        out[f"pyhash-sum:{tag}"] = PoolSum(Kallen(xr, sp.Symbol("i"), v) + v * yr, (sp.Symbol("i"), (1, 2)))
    # family "boundmethod": the non-SymPy attribute is the same method of two differently configured objects
    for tag, sc in (("two", 2), ("three", 3)):
        out[f"boundmethod-width:{tag}"] = D.EnergyDependentWidth(s, m0, w0, m1, m2, 1, d, phsp_factor=ScaledPhaseSpace(sc).rho)
    # controls: genuinely different strings
    a, b = sp.symbols("a b", real=True)
    out["control:kibble"] = Kibble(a, b, 3 - a - b, 2, sp.Rational(1, 2), sp.Rational(1, 3), sp.Rational(1, 5))
    out["control:ff"] = D.FormFactor(a ** 2, sp.Rational(1, 3), sp.Rational(1, 4), 2, b)
    out["control:bw"] = D.relativistic_breit_wigner(a, b, sp.Rational(1, 10))
    return out


def families() -> dict[str, list[str]]:
    fam: dict[str, list[str]] = {}
    for k in registry():
        fam.setdefault(k.split(":")[0], []).append(k)
    return fam


def digest(expr) -> str:
    import hashlib
    return hashlib.sha256(sp.srepr(expr).encode()).hexdigest()[:20]
