"""Builder configurations (JSON-able) and how to apply them."""
from __future__ import annotations

import numpy as np

BUILDERS = ["bw", "bw_ff", "analytic", "ff", "non_dynamic", "bw_formfactor", "bw_edw"]


def resonances(reaction) -> list[str]:
    return sorted(reaction.get_intermediate_particles().names)


def l_available(reaction, name: str) -> bool:
    """A form factor needs L: given by the transition (canonical) or by an integer parent spin."""
    if reaction.formalism != "helicity":
        return True
    for p in reaction.get_intermediate_particles():
        if p.name == name:
            return float(p.spin).is_integer()
    return False


def draw_config(rng, reaction, allow_align: bool = True, allow_dynamics: bool = True, allow_permutate: bool = True) -> dict:
    finals = sorted(reaction.final_state)
    n = len(finals)
    stable_mode = str(rng.choice(["none", "none", "empty", "subset", "all"]))
    stable = {"none": None, "empty": [], "all": finals,
              "subset": [int(i) for i in finals if rng.uniform() < 0.5] or [int(finals[0])]}[stable_mode]
    align = "none"
    if allow_align and n >= 3 and rng.uniform() < 0.45:
        align = str(rng.choice(["axisangle", "dpd1", "dpd2", "dpd3"])) if n == 3 else "axisangle"
        if align == "axisangle" and axis_angle_terms(reaction) * max(1, len(reaction.transitions)) ** 0.5 > 2500:
            align = "none"  # the alignment sum has too many terms to unfold within the harness budget
    dyn = []
    if allow_dynamics:
        for name in resonances(reaction):
            if rng.uniform() < 0.6:
                kinds = BUILDERS if l_available(reaction, name) else ["bw", "non_dynamic"]
                dyn.append({"select": str(rng.choice(["name", "particle", "decay", "tuple"])), "target": name,
                            "builder": str(rng.choice(kinds))})
    return {
        "stable": stable, "scalar_mass": bool(rng.uniform() < 0.35), "couplings": bool(rng.uniform() < 0.3), "align": align,
        "naming": {"parent": bool(rng.uniform() < 0.3), "child": bool(rng.uniform() < 0.7), "ls": bool(rng.uniform() < 0.7)},
        "permutate": bool(allow_permutate and align == "none" and n <= 4 and rng.uniform() < 0.2),
        "dynamics": dyn,
    }


def axis_angle_terms(reaction) -> float:
    """Number of terms of the axis-angle alignment sum (product of all index pools) - a cost estimate."""
    from vmon.workloads.reactions import parent_edge, topologies_of  # noqa: PLC0415

    worst = 1.0
    for top in topologies_of(reaction):
        terms = 1.0
        for i, part in reaction.final_state.items():
            depth = 0
            cur = i
            while parent_edge(top, cur) is not None:
                depth += 1
                cur = parent_edge(top, cur)
            n_idx = depth + (1 if depth > 1 else 0)
            pool = 2 if (part.mass == 0 and part.spin > 0) else int(2 * part.spin + 1)
            terms *= pool ** n_idx
        worst = max(worst, terms)
    for part in reaction.initial_state.values():
        worst *= int(2 * part.spin + 1)
    return worst * len(topologies_of(reaction))


def axis_angle_cost(reaction) -> float:
    """Size of the unfolded axis-angle intensity ~ (terms of the alignment sum) x (number of chains)."""
    return axis_angle_terms(reaction) * max(1, len(reaction.transitions))


def dpd_cost(reaction) -> float:
    """Size of the unfolded DPD intensity ~ prod_outer (2j+1)^2 x number of chains."""
    c = 1.0
    for part in list(reaction.initial_state.values()) + list(reaction.final_state.values()):
        c *= (2 * float(part.spin) + 1) ** 2
    return c * max(1, len(reaction.transitions))


def default_config() -> dict:
    return {"stable": None, "scalar_mass": False, "couplings": False, "align": "none",
            "naming": None, "permutate": False, "dynamics": []}


def config_key(cfg: dict) -> str:
    st = cfg["stable"]
    return "|".join([
        "stable=" + ("None" if st is None else ("empty" if not st else ",".join(map(str, st)))),
        f"scalar={int(cfg['scalar_mass'])}", f"coupl={int(cfg['couplings'])}", f"align={cfg['align']}",
        "naming=" + ("default" if not cfg.get("naming") else "".join(str(int(cfg["naming"][k])) for k in ("parent", "child", "ls"))),
        f"perm={int(cfg['permutate'])}",
        "dyn=" + ";".join(f"{d['target']}:{d['select']}:{d['builder']}" for d in cfg["dynamics"]),
    ])


def get_dynamics_builder(kind: str):
    from ampform.dynamics import builder as B  # noqa: PLC0415

    if kind == "bw_formfactor":   # the two flag combinations that have no module-level convenience builder
        return B.RelativisticBreitWignerBuilder(form_factor=True, energy_dependent_width=False)
    if kind == "bw_edw":
        return B.RelativisticBreitWignerBuilder(form_factor=False, energy_dependent_width=True)
    return {"bw": B.create_relativistic_breit_wigner, "bw_ff": B.create_relativistic_breit_wigner_with_ff,
            "analytic": B.create_analytic_breit_wigner, "ff": B.create_non_dynamic_with_ff,
            "non_dynamic": B.create_non_dynamic}[kind]


def prepare_reaction(reaction, cfg: dict):
    if cfg["align"].startswith("dpd"):
        from ampform.helicity.align.dpd import relabel_edge_ids  # noqa: PLC0415

        if set(reaction.final_state) != {1, 2, 3}:
            reaction = relabel_edge_ids(reaction)
    return reaction


def apply_config(builder, reaction, cfg: dict) -> None:
    from ampform.helicity.align.axisangle import AxisAngleAlignment  # noqa: PLC0415
    from ampform.helicity.align.dpd import DalitzPlotDecomposition  # noqa: PLC0415
    from ampform.helicity.decay import TwoBodyDecay  # noqa: PLC0415

    builder.config.stable_final_state_ids = cfg["stable"]
    builder.config.scalar_initial_state_mass = cfg["scalar_mass"]
    builder.config.use_helicity_couplings = cfg["couplings"]
    if cfg["align"] == "keep":
        pass
    elif cfg["align"] == "axisangle":
        builder.config.spin_alignment = AxisAngleAlignment()
    elif cfg["align"].startswith("dpd"):
        builder.config.spin_alignment = DalitzPlotDecomposition(int(cfg["align"][3]))
    nm = cfg.get("naming")
    if nm:
        builder.naming.insert_parent_helicities = nm["parent"]
        builder.naming.insert_child_helicities = nm["child"]
        if hasattr(builder.naming, "insert_ls_combinations"):
            builder.naming.insert_ls_combinations = nm["ls"]
    if cfg["permutate"]:
        builder.adapter.permutate_registered_topologies()
    for d in cfg["dynamics"]:
        fn = get_dynamics_builder(d["builder"])
        name = d["target"]
        if d["select"] == "name":
            builder.dynamics.assign(name, fn)
        elif d["select"] == "particle":
            part = next(p for p in reaction.get_intermediate_particles() if p.name == name)
            builder.dynamics.assign(part, fn)
        else:
            for t in reaction.transitions:
                for node in t.topology.nodes:
                    decay = TwoBodyDecay.from_transition(t, node)
                    if decay.parent.particle.name == name:
                        if d["select"] == "decay":
                            builder.dynamics.assign(decay, fn)
                        else:
                            builder.dynamics.assign((t, node), fn)


def build(reaction, cfg: dict):
    """(reaction actually used, builder) for a configuration."""
    from ampform import get_builder  # noqa: PLC0415

    r = prepare_reaction(reaction, cfg)
    b = get_builder(r)
    apply_config(b, r, cfg)
    return r, b


def subthreshold_energy_dependent_width(reaction, cfg: dict) -> bool:
    """A lineshape with an energy-dependent width (normalised by rho(m0^2)) is assigned to a resonance whose tabulated mass lies
    below the sum of the tabulated masses of its daughters in some transition (e.g. N(1650)+ -> K0 Sigma+): rho(m0^2) is the square
    root of a negative number there and the real-dtype NumPy code returns NaN - a property of that parametrisation for closed
    channels (see KF-C09), not of the symbol bookkeeping."""
    kinds = {d["target"]: d["builder"] for d in cfg.get("dynamics") or []}
    targets = {n for n, k in kinds.items() if k in ("bw_ff", "analytic", "bw_edw")}
    if not targets:
        return False
    for t in reaction.transitions:
        top = t.topology
        for node in top.nodes:
            pin = next(iter(top.get_edge_ids_ingoing_to_node(node)))
            part = t.states[pin].particle
            if part.name in targets:
                kids = [t.states[c].particle.mass for c in top.get_edge_ids_outgoing_from_node(node)]
                # daughters that are themselves resonances can be off shell: only final-state daughters bound the threshold from below
                if part.mass < sum(kids):
                    return True
    return False


def random_parameters(model, rng) -> dict:
    """Random complex couplings; masses/widths/radii near their defaults."""
    out = {}
    for s, v in model.parameter_defaults.items():
        name = s.name
        if name.startswith(("C_", "H_")):
            out[s] = complex(rng.normal(), rng.normal())
        elif name.startswith("d_"):
            out[s] = float(rng.uniform(0.5, 2.5))
        elif name.startswith(R"\Gamma"):
            out[s] = float(v) * float(rng.uniform(0.7, 1.4)) if v else 0.1
        else:
            out[s] = v
    return out


def np_rng(*key):
    return np.random.default_rng(list(key))
