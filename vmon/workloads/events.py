"""Phase-space event generation with vector formulas (no ampform code, no matrices)."""
from __future__ import annotations

import numpy as np


def minkowski_mass(p: np.ndarray) -> np.ndarray:
    m2 = p[..., 0] ** 2 - np.sum(p[..., 1:] ** 2, axis=-1)
    return np.sqrt(np.maximum(m2, 0.0))


def mass2(p: np.ndarray) -> np.ndarray:
    return p[..., 0] ** 2 - np.sum(p[..., 1:] ** 2, axis=-1)


def two_body(M, m1, m2, n, rng, ct=None, ph=None):
    """Momenta of daughters 1,2 in the rest frame of M (arrays (n,4))."""
    M = np.broadcast_to(np.asarray(M, dtype=float), (n,))
    m1 = np.broadcast_to(np.asarray(m1, dtype=float), (n,))
    m2 = np.broadcast_to(np.asarray(m2, dtype=float), (n,))
    q2 = (M ** 2 - (m1 + m2) ** 2) * (M ** 2 - (m1 - m2) ** 2) / (4 * M ** 2)
    q = np.sqrt(np.maximum(q2, 0.0))
    ct = rng.uniform(-1, 1, n) if ct is None else np.broadcast_to(ct, (n,))
    ph = rng.uniform(-np.pi, np.pi, n) if ph is None else np.broadcast_to(ph, (n,))
    st = np.sqrt(np.maximum(1 - ct ** 2, 0.0))
    px, py, pz = q * st * np.cos(ph), q * st * np.sin(ph), q * ct
    p1 = np.stack([np.sqrt(m1 ** 2 + q ** 2), px, py, pz], 1)
    p2 = np.stack([np.sqrt(m2 ** 2 + q ** 2), -px, -py, -pz], 1)
    return p1, p2


def boost_from_rest(p: np.ndarray, ref: np.ndarray, mref=None) -> np.ndarray:
    """Boost p (given in the rest frame of ref) into the frame where ref has momentum ref.

    ``mref``: the known mass of ref (avoids the E^2-p^2 cancellation for highly boosted systems)."""
    m = np.sqrt(np.maximum(mass2(ref), 1e-300)) if mref is None else np.asarray(mref, dtype=float)
    b = ref[:, 1:] / ref[:, [0]]
    g = ref[:, 0] / m
    bp = np.sum(b * p[:, 1:], 1)
    b2 = np.sum(b * b, 1)
    fac = np.where(b2 > 0, (g - 1) / np.where(b2 > 0, b2, 1), 0)
    E = g * (p[:, 0] + bp)
    v = p[:, 1:] + (fac * bp)[:, None] * b + (g * p[:, 0])[:, None] * b
    return np.concatenate([E[:, None], v], 1)


def boost_to_rest(q: np.ndarray, ref: np.ndarray, mref=None) -> np.ndarray:
    """Boost q into the rest frame of ref (pure boost, vector formula)."""
    m = np.sqrt(np.maximum(mass2(ref), 1e-300)) if mref is None else np.asarray(mref, dtype=float)
    b = ref[:, 1:] / ref[:, [0]]
    g = ref[:, 0] / m
    bp = np.sum(b * q[:, 1:], 1)
    b2 = np.sum(b * b, 1)
    fac = np.where(b2 > 0, (g - 1) / np.where(b2 > 0, b2, 1), 0)
    E = g * (q[:, 0] - bp)
    v = q[:, 1:] + (fac * bp)[:, None] * b - (g * q[:, 0])[:, None] * b
    return np.concatenate([E[:, None], v], 1)


def gen_events(M: float, masses, n: int, rng, ids=None, stratum: str = "flat") -> dict[int, np.ndarray]:
    """Sequential two-body generator M -> m_a + X, X -> m_b + X', ... in the rest frame of M.

    Not flat in phase space (irrelevant for the oracles).  ``stratum``:
      flat | threshold (sub-system masses just above their thresholds) |
      boosted (light sub-systems => large gamma) | planar (all phi = 0) |
      collinear (all cos(theta) = +-1 up to 1e-7) | axis (first decay along an axis)
    """
    masses = [float(m) for m in masses]
    k = len(masses)
    ids = list(range(k)) if ids is None else list(ids)
    order = list(rng.permutation(k))
    out: dict[int, np.ndarray] = {}
    parent = np.tile(np.array([M, 0.0, 0.0, 0.0]), (n, 1))
    Mcur = np.full(n, float(M))
    for step, i in enumerate(order[:-1]):
        rest_ids = order[step + 1:]
        rest = sum(masses[j] for j in rest_ids)
        if len(rest_ids) == 1:
            mX = np.full(n, masses[rest_ids[0]])
        else:
            lo, hi = rest, Mcur - masses[i]
            if stratum == "threshold":
                u = rng.uniform(0, 1e-3, n)
            elif stratum == "boosted":
                u = rng.uniform(0, 0.02, n)
            elif stratum == "heavy":
                u = 1 - rng.uniform(0, 1e-3, n)
            else:
                u = rng.uniform(0.01, 0.99, n)
            mX = lo + u * (hi - lo)
            mX = np.maximum(mX, 1e-6 * float(M))  # a sub-system of massless particles is never exactly light-like
        ct = ph = None
        if stratum == "planar":
            ph = np.zeros(n)
        elif stratum == "collinear":
            ct = np.where(rng.uniform(size=n) < 0.5, 1.0, -1.0) * (1 - 1e-9 * rng.uniform(size=n))
        elif stratum == "axis" and step == 0:
            ax = rng.integers(0, 3)
            if ax == 2:
                ct = np.where(rng.uniform(size=n) < 0.5, 1.0, -1.0)
            else:
                ct = np.zeros(n)
                ph = np.full(n, 0.0 if ax == 0 else np.pi / 2)
        p1, p2 = two_body(Mcur, masses[i], mX, n, rng, ct, ph)
        out[ids[i]] = boost_from_rest(p1, parent, Mcur)
        parent = boost_from_rest(p2, parent, Mcur)
        Mcur = mX
    out[ids[order[-1]]] = parent
    return out


def random_rotation(rng) -> np.ndarray:
    q = rng.normal(size=4)
    q /= np.linalg.norm(q)
    a, b, c, d = q
    return np.array([
        [a * a + b * b - c * c - d * d, 2 * (b * c - a * d), 2 * (b * d + a * c)],
        [2 * (b * c + a * d), a * a - b * b + c * c - d * d, 2 * (c * d - a * b)],
        [2 * (b * d - a * c), 2 * (c * d + a * b), a * a - b * b - c * c + d * d]])


def axis_rotation(axis: int, angle: float) -> np.ndarray:
    c, s = np.cos(angle), np.sin(angle)
    if axis == 0:
        return np.array([[1, 0, 0], [0, c, -s], [0, s, c]], dtype=float)
    if axis == 1:
        return np.array([[c, 0, s], [0, 1, 0], [-s, 0, c]], dtype=float)
    return np.array([[c, -s, 0], [s, c, 0], [0, 0, 1]], dtype=float)


def rotate_events(ev: dict[int, np.ndarray], R: np.ndarray) -> dict[int, np.ndarray]:
    return {i: np.concatenate([p[:, [0]], p[:, 1:] @ R.T], 1) for i, p in ev.items()}


def total(ev: dict[int, np.ndarray], ids=None) -> np.ndarray:
    ids = list(ev) if ids is None else ids
    return sum(ev[i] for i in ids)
