"""Expression classes written with ampform's ``@unevaluated`` decorator whose field *layouts* do not occur in the library
today (a non-SymPy attribute declared first, in the middle, two interleaved).  C14/C15 speak of every class written with the
decorator, including ones added later; these exercise the decorator itself, the library classes exercise its current users.
Module-level so that instances can be pickled by reference."""
from __future__ import annotations

from typing import Any

import sympy as sp

from ampform.sympy import argument, unevaluated


@unevaluated
class ToyAttrFirst(sp.Expr):
    phsp_factor: Any = argument(sympify=False)
    s: Any
    m: Any
    _latex_repr_ = R"T_1\left({s}, {m}\right)"

    def evaluate(self) -> sp.Expr:
        return self.phsp_factor(self.s, self.m, 2 * self.m) + self.s


@unevaluated
class ToyAttrMiddle(sp.Expr):
    s: Any
    name: Any = argument(sympify=False)
    m: Any
    _latex_repr_ = R"T_2\left({s}, {m}\right)"

    def evaluate(self) -> sp.Expr:
        return self.s ** 2 - 3 * self.m + (1 if self.name is None else 2)


@unevaluated
class ToyTwoAttrs(sp.Expr):
    phsp_factor: Any = argument(sympify=False)
    s: Any
    name: Any = argument(sympify=False)
    m: Any
    _latex_repr_ = R"T_3\left({s}, {m}\right)"

    def evaluate(self) -> sp.Expr:
        return self.phsp_factor(self.s, self.m, self.m) * (2 if self.name else 1) - self.m
