"""A module-level subclass of the deprecated UnevaluatedExpression (picklable by reference)."""
from __future__ import annotations

import warnings

import sympy as sp

with warnings.catch_warnings():
    warnings.simplefilter("ignore")
    from ampform.sympy.deprecated import UnevaluatedExpression, create_expression, implement_doit_method

    @implement_doit_method
    class DeprecatedSquare(UnevaluatedExpression):
        def __new__(cls, x, name=None, **hints):
            return create_expression(cls, x, name=name, **hints)

        def evaluate(self) -> sp.Expr:
            return self.args[0] ** 2

        def _latex(self, printer, *args) -> str:
            return f"{printer._print(self.args[0])}^2"
