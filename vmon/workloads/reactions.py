"""Reaction workloads: qrules fixtures + synthetic hand-built ReactionInfo objects."""
from __future__ import annotations

import itertools
from fractions import Fraction
from functools import lru_cache
from pathlib import Path

import numpy as np

from vmon import sut  # noqa: F401

FIXDIR = Path(__file__).resolve().parent.parent.parent / "fixtures" / "reactions"


def fixture_names(formalism: str | None = None) -> list[str]:
    names = sorted(p.name[:-5] for p in FIXDIR.glob("*.json"))
    if formalism == "helicity":
        names = [n for n in names if n.endswith(".hel")]
    elif formalism == "canonical-helicity":
        names = [n for n in names if n.endswith(".can")]
    return names


@lru_cache(maxsize=None)
def load_fixture(name: str):
    import qrules.io  # noqa: PLC0415

    return qrules.io.load(str(FIXDIR / f"{name}.json"))


def verify_fixtures() -> int:
    n = 0
    for name in fixture_names():
        r = load_fixture(name)
        assert len(r.transitions) > 0, name
        n += 1
    return n


# ---------------------------------------------------------------------------------------
# structural helpers on topologies / reactions (independent of ampform.helicity.decay)
# ---------------------------------------------------------------------------------------
def attached(top, eid) -> tuple[int, ...]:
    e = top.edges[eid]
    if e.ending_node_id is None:
        return (eid,)
    out: list[int] = []
    for c in top.get_edge_ids_outgoing_from_node(e.ending_node_id):
        out += attached(top, c)
    return tuple(sorted(out))


def parent_edge(top, eid):
    n = top.edges[eid].originating_node_id
    if n is None:
        return None
    return next(iter(top.get_edge_ids_ingoing_to_node(n)))


def node_children(top, node) -> tuple[int, int]:
    """(helicity state, opposite-helicity state): ordered by tuple of attached final-state ids."""
    ch = sorted(top.get_edge_ids_outgoing_from_node(node), key=lambda e: attached(top, e))
    return ch[0], ch[1]


def node_parent(top, node) -> int:
    return next(iter(top.get_edge_ids_ingoing_to_node(node)))


def angle_suffix(top, eid) -> str:
    groups = []
    cur = eid
    while True:
        groups.append("".join(map(str, attached(top, cur))))
        par = parent_edge(top, cur)
        if par is None or par in top.incoming_edge_ids:
            break
        cur = par
    s = "_" + groups[0]
    if len(groups) > 1:
        s += "^" + ",".join(groups[1:])
    return s


def mass_name(top, eid) -> str:
    return "m_" + "".join(map(str, attached(top, eid)))


def topologies_of(reaction) -> list:
    seen = []
    for t in reaction.transitions:
        if t.topology not in seen:
            seen.append(t.topology)
    return seen


def final_state_masses(reaction) -> dict[int, float]:
    return {i: p.mass for i, p in reaction.final_state.items()}


def initial_mass(reaction) -> float:
    return next(iter(reaction.initial_state.values())).mass


def spin_range(s, massless: bool = False) -> list[Fraction]:
    s = Fraction(s).limit_denominator(2)
    vals = [-s + i for i in range(int(2 * s) + 1)]
    if massless and s > 0:
        vals = [v for v in vals if abs(v) == s]
    return vals


def has_complete_helicities(reaction) -> bool:
    """Every outer state occurs with its full set of spin projections (massless: +-s)."""
    outer = list(reaction.initial_state) + list(reaction.final_state)
    for i in outer:
        part = (reaction.initial_state.get(i) or reaction.final_state.get(i))
        want = set(spin_range(part.spin, massless=(part.mass == 0.0)))
        have = {Fraction(t.states[i].spin_projection).limit_denominator(2) for t in reaction.transitions}
        if not want <= have:
            return False
    return True


def reaction_summary(reaction) -> dict:
    tops = topologies_of(reaction)
    return {
        "formalism": reaction.formalism,
        "n_transitions": len(reaction.transitions),
        "n_topologies": len(tops),
        "initial": {i: (p.name, float(p.spin)) for i, p in reaction.initial_state.items()},
        "final": {i: (p.name, float(p.spin), p.mass) for i, p in reaction.final_state.items()},
        "intermediate": sorted(reaction.get_intermediate_particles().names),
    }


# ---------------------------------------------------------------------------------------
# synthetic reactions
# ---------------------------------------------------------------------------------------
def make_particle(name: str, spin, parity: int, mass: float, width: float = 0.0, pid: int = 0):
    from qrules.particle import Particle  # noqa: PLC0415
    from qrules.quantum_numbers import Parity  # noqa: PLC0415

    return Particle(name=name, pid=pid, spin=float(spin), mass=float(mass), width=float(width),
                    charge=0, parity=Parity(int(parity)), latex=None)


def eta_parity(J, P, s1, P1, s2, P2) -> int:
    """eta = P P1 P2 (-1)^(J - s1 - s2)  (J - s1 - s2 is an integer for an allowed node)."""
    e = Fraction(J) - Fraction(s1) - Fraction(s2)
    assert e.denominator == 1, (J, s1, s2)
    return int(P * P1 * P2 * (-1) ** (int(e) % 2))


def synth_spec(rng, n_final: int | None = None, formalism: str = "helicity", max_spin2: int = 4,
               topo_index: int | None = None, allow_massless: bool = True, parity_mode: str | None = None,
               identical_scalars: bool = False, partial: str | None = None, max_transitions: int = 400,
               shuffle_names: bool = False) -> dict:
    """Draw a JSON-able description of a synthetic single-topology reaction."""
    from qrules.topology import create_isobar_topologies  # noqa: PLC0415

    n_final = int(n_final or rng.choice([2, 3, 3, 3, 4, 4, 5]))
    tops = create_isobar_topologies(n_final)
    ti = int(rng.integers(len(tops))) if topo_index is None else topo_index % len(tops)
    top = tops[ti]
    cap = max_spin2 if n_final <= 3 else min(max_spin2, 2)
    spins2: dict[int, int] = {}
    parity: dict[int, int] = {}
    mass: dict[int, float] = {}
    finals = sorted(top.outgoing_edge_ids)
    for i in finals:
        spins2[i] = int(rng.choice([0, 0, 1, 1, 2, min(3, cap), cap][: 5 + (cap > 2) + (cap > 3)])) if cap else 0
        spins2[i] = min(spins2[i], cap)
        parity[i] = int(rng.choice([-1, 1]))
        mass[i] = float(np.round(rng.uniform(0.1, 1.0), 3))
        if allow_massless and spins2[i] in (1, 2) and rng.uniform() < 0.2:
            mass[i] = 0.0
    if identical_scalars and n_final >= 3:
        a, b = finals[-2], finals[-1]
        spins2[a] = spins2[b] = 0
        parity[b] = parity[a]
        mass[b] = mass[a] = max(mass[a], 0.1)

    def fill(eid):
        e = top.edges[eid]
        if e.ending_node_id is None:
            return
        ch = list(top.get_edge_ids_outgoing_from_node(e.ending_node_id))
        for c in ch:
            fill(c)
        par2 = (spins2[ch[0]] + spins2[ch[1]]) % 2
        choices = [s for s in range(par2, cap + 1, 2)] or [par2]
        spins2[eid] = int(rng.choice(choices))
        parity[eid] = int(rng.choice([-1, 1]))
        mass[eid] = float(np.round(sum(mass[c] for c in ch) + rng.uniform(0.3, 0.8), 3))

    init = next(iter(top.incoming_edge_ids))
    fill(init)
    mass[init] = float(np.round(mass[init] + 0.5, 3))
    nodes = sorted(top.nodes)
    if parity_mode is None:
        parity_mode = str(rng.choice(["none", "all", "all", "some"]))
    if parity_mode == "all":
        pnodes = nodes
    elif parity_mode == "none":
        pnodes = []
    else:
        pnodes = [n for n in nodes if rng.uniform() < 0.5]
    names = None
    if shuffle_names:
        # particle names whose alphabetical order is uncorrelated with the edge ids (ampform sorts the two
        # daughters of a node by *name* for coefficient naming, by *id* elsewhere)
        letters = list("BCDEGHKLMNPQSTUVWXYZ")
        rng.shuffle(letters)
        names = {str(e): f"{letters[k % len(letters)]}{e}" for k, e in enumerate(sorted(top.edges)) if e != init}
    return {
        "names": names,
        "kind": "synth", "n_final": n_final, "topo_index": ti, "formalism": formalism,
        "spins2": {str(k): v for k, v in spins2.items()}, "parity": {str(k): v for k, v in parity.items()},
        "mass": {str(k): v for k, v in mass.items()}, "parity_nodes": [int(n) for n in pnodes],
        "identical_scalars": bool(identical_scalars and n_final >= 3), "partial": partial,
        "l_max": 3, "max_transitions": max_transitions,
    }


def build_synth(spec: dict):
    """Build the ReactionInfo described by ``synth_spec`` (deterministic)."""
    from qrules.quantum_numbers import InteractionProperties  # noqa: PLC0415
    from qrules.topology import FrozenTransition, create_isobar_topologies  # noqa: PLC0415
    from qrules.transition import ReactionInfo, State  # noqa: PLC0415

    top = create_isobar_topologies(spec["n_final"])[spec["topo_index"]]
    spins = {int(k): Fraction(v, 2) for k, v in spec["spins2"].items()}
    parity = {int(k): v for k, v in spec["parity"].items()}
    mass = {int(k): v for k, v in spec["mass"].items()}
    init = next(iter(top.incoming_edge_ids))
    finals = sorted(top.outgoing_edge_ids)
    particles = {}
    custom = spec.get("names") or {}
    for eid in sorted(top.edges):
        twin = bool(spec.get("identical_scalars")) and eid == finals[-1]
        src = finals[-2] if twin else eid
        if eid == init:
            name = "A"
        elif str(src) in custom:
            name = custom[str(src)]
        elif eid in finals:
            name = f"F{src}"
        else:
            name = f"R{eid}"
        width = 0.0 if (eid in finals or eid == init) else round(0.05 + 0.01 * (eid % 7), 3)
        particles[eid] = make_particle(name, spins[eid], parity[eid], mass[eid], width, pid=100 + src)
    nodes = sorted(top.nodes)
    pnodes = set(spec["parity_nodes"])
    canonical = spec["formalism"] != "helicity"

    eta = {}
    for n in nodes:
        pin = next(iter(top.get_edge_ids_ingoing_to_node(n)))
        c1, c2 = sorted(top.get_edge_ids_outgoing_from_node(n))
        eta[n] = eta_parity(spins[pin], parity[pin], spins[c1], parity[c1], spins[c2], parity[c2])

    ranges = {eid: spin_range(spins[eid], massless=(mass[eid] == 0.0 and eid in finals)) for eid in top.edges}
    partial = spec.get("partial")
    if partial == "initial_one":
        ranges[init] = ranges[init][-1:]
    elif partial == "initial_nonneg":
        ranges[init] = [v for v in ranges[init] if v >= 0]
    elif partial == "final_one":
        f0 = finals[0]
        ranges[f0] = ranges[f0][-1:]
    edge_ids = sorted(top.edges)
    helicity_sets = []
    for combo in itertools.product(*[ranges[e] for e in edge_ids]):
        lam = dict(zip(edge_ids, combo))
        ok = True
        for n in nodes:
            pin = next(iter(top.get_edge_ids_ingoing_to_node(n)))
            c1, c2 = sorted(top.get_edge_ids_outgoing_from_node(n))
            if abs(lam[c1] - lam[c2]) > spins[pin]:
                ok = False
                break
            if n in pnodes and eta[n] == -1 and lam[c1] == 0 and lam[c2] == 0:
                ok = False
                break
        if ok:
            helicity_sets.append(lam)

    def ls_options(n):
        pin = next(iter(top.get_edge_ids_ingoing_to_node(n)))
        c1, c2 = sorted(top.get_edge_ids_outgoing_from_node(n))
        J, s1, s2 = spins[pin], spins[c1], spins[c2]
        out = []
        S = abs(s1 - s2)
        while S <= s1 + s2:
            for L in range(0, spec.get("l_max", 3) + 1):
                if abs(L - S) <= J <= L + S:
                    if n in pnodes and parity[pin] != parity[c1] * parity[c2] * (-1) ** L:
                        continue
                    out.append((L, S))
            S += 1
        return out

    transitions = []
    if canonical:
        ls = {n: ls_options(n) for n in nodes}
        if any(len(v) == 0 for v in ls.values()):
            return None
        for lam in helicity_sets:
            for combo in itertools.product(*[ls[n] for n in nodes]):
                inter = {}
                bad = False
                for n, (L, S) in zip(nodes, combo):
                    c1, c2 = sorted(top.get_edge_ids_outgoing_from_node(n))
                    if abs(lam[c1] - lam[c2]) > S:
                        bad = True  # second CG vanishes identically: qrules does not list it
                        break
                    inter[n] = InteractionProperties(l_magnitude=L, l_projection=0, s_magnitude=S,
                                                     s_projection=lam[c1] - lam[c2],
                                                     parity_prefactor=(eta[n] if n in pnodes else None))
                if bad:
                    continue
                states = {e: State(particles[e], float(lam[e])) for e in edge_ids}
                transitions.append(FrozenTransition(top, states, inter))
    else:
        for lam in helicity_sets:
            inter = {n: InteractionProperties(parity_prefactor=(eta[n] if n in pnodes else None)) for n in nodes}
            states = {e: State(particles[e], float(lam[e])) for e in edge_ids}
            transitions.append(FrozenTransition(top, states, inter))
    if not transitions or len(transitions) > spec.get("max_transitions", 400):
        return None
    if spec.get("identical_scalars"):
        # like qrules: one representative per permutation class of identical final-state particles
        a, b = finals[-2], finals[-1]
        seen, keep = set(), []
        for t in transitions:
            key = tuple(sorted((k, v.spin_projection) for k, v in t.states.items() if k not in (a, b))) + \
                tuple(sorted([t.states[a].spin_projection, t.states[b].spin_projection])) + \
                tuple(sorted((k, str(v)) for k, v in t.interactions.items()))
            if key not in seen:
                seen.add(key)
                keep.append(t)
        transitions = keep
    return ReactionInfo(transitions, formalism=spec["formalism"])


def get_reaction(desc: dict):
    """desc: {'kind':'fixture','name':...} | synth spec | {'relabel': True, ...}."""
    if desc.get("kind") == "fixture":
        r = load_fixture(desc["name"])
    else:
        r = build_synth(desc)
    if r is not None and desc.get("relabel"):
        from ampform.helicity.align.dpd import relabel_edge_ids  # noqa: PLC0415

        r = relabel_edge_ids(r)
    return r


def massless_alignment_features(reaction, align: str) -> dict:
    """Mechanism-level features of the two axis-angle defects with massless particles (known findings):
    (a) a massless final-state particle of *integer* spin >= 1: its rotation sums skip projection 0, so the
        spin rotation is not unitary; (b) a massless spinful final-state particle that is not attached to the
        initial state: its Wigner rotation needs BoostMatrix(-p) with beta = 1 (NaN).
    A massless spin-1/2 particle attached to the initial state has neither."""
    integer = inner = False
    seen = set()
    for t in reaction.transitions:
        top = t.topology
        if top in seen:
            continue
        seen.add(top)
        init = set(top.incoming_edge_ids)
        for i in top.outgoing_edge_ids:
            part = t.states[i].particle
            if part.mass == 0 and part.spin > 0:
                if float(part.spin) % 1 == 0:
                    integer = True
                if parent_edge(top, i) not in init:
                    inner = True
    aa = align == "axisangle"
    return {"axisangle_massless_integer_spin": aa and integer,
            "axisangle_massless_wigner_rotated": aa and inner,
            "axisangle_massless_integer_spin_or_wigner_rotated": aa and (integer or inner)}


def spin_content(reaction) -> str:
    t = reaction.transitions[0]
    top = t.topology
    parts = []
    for n in sorted(top.nodes):
        pin = node_parent(top, n)
        h, o = node_children(top, n)
        parts.append(f"{float(t.states[pin].particle.spin):g}>{float(t.states[h].particle.spin):g},{float(t.states[o].particle.spin):g}")
    return ";".join(parts)


def synth_multi_topology_general(seed: int, formalism: str = "helicity"):
    """Random three-body reaction with 2-3 topologies (any pairs), random spins incl. scalar resonances, so that
    the topologies generally realise *different* sets of outer helicity combinations."""
    import attrs
    from qrules.quantum_numbers import InteractionProperties  # noqa: PLC0415
    from qrules.topology import FrozenTransition, create_isobar_topologies  # noqa: PLC0415
    from qrules.transition import ReactionInfo, State  # noqa: PLC0415

    rng = np.random.default_rng([seed, 78])
    base = create_isobar_topologies(3)[0]
    res_edge = next(iter(base.intermediate_edge_ids))
    kids = sorted(base.get_edge_ids_outgoing_from_node(base.edges[res_edge].ending_node_id))
    bach = next(i for i in base.outgoing_edge_ids if i not in kids)
    fermions = bool(rng.uniform() < 0.5)
    if fermions:
        s_fin = [Fraction(1, 2), Fraction(1, 2), Fraction(int(rng.integers(0, 2)))]
        s_init = Fraction(int(rng.integers(0, 2)))
    else:
        s_fin = [Fraction(int(rng.integers(0, 2))), Fraction(int(rng.integers(0, 2))), Fraction(0)]
        s_init = Fraction(int(rng.integers(0, 3)))
    order = list(rng.permutation(3))
    s_fin = [s_fin[i] for i in order]
    masses = [float(np.round(rng.uniform(0.2, 0.6), 3)) for _ in range(3)]
    init = make_particle("A", s_init, -1, float(np.round(sum(masses) + rng.uniform(1.0, 2.0), 3)), pid=100)
    finals = {i: make_particle(f"F{i}", s_fin[i], [1, -1][i % 2], masses[i], pid=101 + i) for i in range(3)}
    all_pairs = [(0, 1), (0, 2), (1, 2)]
    n_top = int(rng.integers(2, 4))
    pairs = [all_pairs[i] for i in sorted(rng.choice(3, n_top, replace=False))]
    transitions = []
    for k, pair in enumerate(pairs):
        other = ({0, 1, 2} - set(pair)).pop()
        mapping = {bach: other, kids[0]: pair[0], kids[1]: pair[1]}
        top = attrs.evolve(base, edges={mapping.get(i, i): e for i, e in base.edges.items()})
        two_s = int(2 * (finals[pair[0]].spin + finals[pair[1]].spin)) % 2
        s_res = Fraction(two_s + 2 * int(rng.integers(0, 2)), 2) if two_s else Fraction(int(rng.integers(0, 3)))
        mres = float(np.round(masses[pair[0]] + masses[pair[1]] + rng.uniform(0.2, 0.6), 3))
        res = make_particle(f"R{k}", s_res, 1, mres, 0.1 + 0.05 * k, pid=110 + k)
        part = {next(iter(top.incoming_edge_ids)): init, res_edge: res, **finals}
        ranges = {e: spin_range(Fraction(part[e].spin).limit_denominator(2)) for e in top.edges}
        edge_ids = sorted(top.edges)
        nodes = sorted(top.nodes)
        for combo in itertools.product(*[ranges[e] for e in edge_ids]):
            lam = dict(zip(edge_ids, combo))
            ok = True
            for n in nodes:
                pin = next(iter(top.get_edge_ids_ingoing_to_node(n)))
                c1, c2 = sorted(top.get_edge_ids_outgoing_from_node(n))
                if abs(lam[c1] - lam[c2]) > Fraction(part[pin].spin).limit_denominator(2):
                    ok = False
            if not ok:
                continue
            states = {e: State(part[e], float(lam[e])) for e in edge_ids}
            if formalism == "helicity":
                transitions.append(FrozenTransition(top, states, {n: InteractionProperties() for n in nodes}))
            else:
                opts = []
                for n in nodes:
                    pin = next(iter(top.get_edge_ids_ingoing_to_node(n)))
                    c1, c2 = sorted(top.get_edge_ids_outgoing_from_node(n))
                    J, s1, s2 = (Fraction(part[e].spin).limit_denominator(2) for e in (pin, c1, c2))
                    o = []
                    S = abs(s1 - s2)
                    while S <= s1 + s2:
                        for L in range(0, 4):
                            if abs(L - S) <= J <= L + S and abs(lam[c1] - lam[c2]) <= S:
                                o.append((L, S))
                        S += 1
                    opts.append(o[:3])
                for ls in itertools.product(*opts):
                    inter = {n: InteractionProperties(l_magnitude=L, l_projection=0, s_magnitude=S, s_projection=0) for n, (L, S) in zip(nodes, ls)}
                    transitions.append(FrozenTransition(top, states, inter))
    if not transitions or len(transitions) > 300:
        return None
    return ReactionInfo(transitions, formalism=formalism)


def synth_multi_topology(seed: int, pairs=((0, 1), (0, 2)), half_integer: bool = False, formalism: str = "helicity"):
    """Three-body reaction with one resonance per listed pair (several topologies, shared outer particles).

    With pairs containing final-state id 0 the decaying child is the helicity state in every topology, so none of
    the known multi-topology findings about opposite-helicity decaying children applies."""
    import attrs
    from qrules.quantum_numbers import InteractionProperties  # noqa: PLC0415
    from qrules.topology import FrozenTransition, create_isobar_topologies  # noqa: PLC0415
    from qrules.transition import ReactionInfo, State  # noqa: PLC0415

    rng = np.random.default_rng([seed, 77])
    base = create_isobar_topologies(3)[0]
    bach = next(i for i in base.outgoing_edge_ids if base.edges[i].originating_node_id == base.edges[next(iter(base.intermediate_edge_ids))].originating_node_id)
    res_edge = next(iter(base.intermediate_edge_ids))
    kids = sorted(base.get_edge_ids_outgoing_from_node(base.edges[res_edge].ending_node_id))
    if half_integer:
        s_init, s_fin = Fraction(1, 2), [Fraction(1, 2), Fraction(0), Fraction(0)]
    else:
        s_init, s_fin = Fraction(int(rng.integers(0, 2))), [Fraction(1), Fraction(0), Fraction(0)]
        # the spinful particle is not always the first one: a spinful *spectator* with a larger id than the isobar's daughters
        pattern = [[1, 0, 0], [0, 1, 0], [0, 0, 1], [1, 1, 0], [1, 0, 1]][seed % 5]
        s_fin = [Fraction(v) for v in pattern]
    if half_integer and rng.uniform() < 0.5:
        s_fin[1] = Fraction(1, 2)
        s_init = Fraction(1)
    masses = [float(np.round(rng.uniform(0.2, 0.6), 3)) for _ in range(3)]
    init = make_particle("A", s_init, -1, float(np.round(sum(masses) + rng.uniform(1.0, 2.0), 3)), pid=100)
    finals = {i: make_particle(f"F{i}", s_fin[i], [1, -1][i % 2], masses[i], pid=101 + i) for i in range(3)}
    transitions = []
    for k, pair in enumerate(pairs):
        other = ({0, 1, 2} - set(pair)).pop()
        mapping = {bach: other, kids[0]: pair[0], kids[1]: pair[1]}
        top = attrs.evolve(base, edges={mapping.get(i, i): e for i, e in base.edges.items()})
        two_s = int(2 * (finals[pair[0]].spin + finals[pair[1]].spin)) % 2
        s_res = Fraction(two_s + 2 * int(rng.integers(0, 2)), 2) if two_s else Fraction(int(rng.integers(1, 3)))
        mres = float(np.round(masses[pair[0]] + masses[pair[1]] + rng.uniform(0.2, 0.6), 3))
        res = make_particle(f"R{k}", s_res, 1, mres, 0.1 + 0.05 * k, pid=110 + k)
        part = {next(iter(top.incoming_edge_ids)): init, res_edge: res, **finals}
        ranges = {e: spin_range(Fraction(part[e].spin).limit_denominator(2)) for e in top.edges}
        edge_ids = sorted(top.edges)
        for combo in itertools.product(*[ranges[e] for e in edge_ids]):
            lam = dict(zip(edge_ids, combo))
            ok = True
            for n in top.nodes:
                pin = next(iter(top.get_edge_ids_ingoing_to_node(n)))
                c1, c2 = sorted(top.get_edge_ids_outgoing_from_node(n))
                if abs(lam[c1] - lam[c2]) > Fraction(part[pin].spin).limit_denominator(2):
                    ok = False
            if ok:
                states = {e: State(part[e], float(lam[e])) for e in edge_ids}
                transitions.append(FrozenTransition(top, states, {n: InteractionProperties() for n in top.nodes}))
    return ReactionInfo(transitions, formalism="helicity")
