"""Instance population for the expression-class laws (C14, C15).

Classes are discovered by introspection of every module under ``ampform`` so that classes
added later are picked up.  Instances come from (a) an argument-shape table applied to the
dataclass fields of every public class, (b) harvesting every node that those instances
unfold to (private *Implementation classes), (c) nodes of real kinematic variables and
dynamics expressions.
"""
from __future__ import annotations

import dataclasses
import importlib
import inspect
import pkgutil

import numpy as np
import sympy as sp

ARRAY_FIELDS = {"momentum", "vector", "array"}
SIZE_FIELDS = {"n_events", "shape"}
INT_FIELDS = {"angular_momentum", "l"}
SHAPES = ["symbol", "number", "compound", "nested", "kinematic"]


def discover_classes() -> dict[str, type]:
    import ampform  # noqa: PLC0415

    out: dict[str, type] = {}
    for mi in pkgutil.walk_packages(ampform.__path__, "ampform."):
        try:
            m = importlib.import_module(mi.name)
        except Exception:  # noqa: BLE001, S112
            continue
        for _n, c in vars(m).items():
            if inspect.isclass(c) and issubclass(c, sp.Basic) and c.__module__.startswith("ampform"):
                out[f"{c.__module__}.{c.__qualname__}"] = c
    # classes written with the library's decorator in field layouts the library itself does not use (yet)
    from vmon.workloads import toy_classes  # noqa: PLC0415
    for _n, c in vars(toy_classes).items():
        if inspect.isclass(c) and issubclass(c, sp.Basic) and c.__module__ == toy_classes.__name__:
            out[f"{c.__module__}.{c.__qualname__}"] = c
    return out


def is_ampform_instance(node) -> bool:
    return type(node).__module__.startswith(("ampform", "vmon.workloads.toy_classes"))


def build(cls, sympy_values: list, attrs: dict):
    """Construct a dataclass-like expression class from the values of its SymPy fields (declaration order) and its non-SymPy
    attributes: positionally where the non-SymPy fields trail (the library's layout), by keyword otherwise."""
    sf = sympy_fields(cls)
    names = [f.name for f in dataclasses.fields(cls)]
    trailing = names[: len(sf)] == [f.name for f in sf]
    if trailing:
        return cls(*sympy_values, **attrs)
    return cls(**{f.name: v for f, v in zip(sf, sympy_values)}, **attrs)


def sympy_fields(cls):
    return [f for f in dataclasses.fields(cls) if f.metadata.get("sympify", True)]


def non_sympy_fields(cls):
    return [f for f in dataclasses.fields(cls) if not f.metadata.get("sympify", True)]


class Pool:
    """Symbols and building blocks shared by all generated instances."""

    def __init__(self) -> None:
        from ampform.kinematics import lorentz as L  # noqa: PLC0415
        from ampform.sympy._array_expressions import ArrayMultiplication, ArraySum  # noqa: PLC0415
        import ampform.dynamics as D  # noqa: PLC0415
        from ampform.kinematics.phasespace import Kallen  # noqa: PLC0415

        self.L, self.D = L, D
        self.p = L.FourMomentumSymbol("p", shape=[])
        self.q = L.FourMomentumSymbol("q", shape=[])
        self.k = L.FourMomentumSymbol("k", shape=[])
        self.x, self.y, self.z, self.u, self.w = sp.symbols("x y z u w", positive=True)
        self.ell = sp.Symbol("ell", integer=True, nonnegative=True)
        self.ArraySum, self.ArrayMultiplication, self.Kallen = ArraySum, ArrayMultiplication, Kallen
        self.phsp = [D.PhaseSpaceFactor, D.PhaseSpaceFactorSWave, D.EqualMassPhaseSpaceFactor, D.PhaseSpaceFactorAbs, D.PhaseSpaceFactorComplex]

    def scalar(self, shape: str, k: int):
        syms = [self.x, self.y, self.z, self.u, self.w]
        s = syms[k % 5]
        if shape == "symbol":
            return s
        if shape == "number":
            return [sp.Rational(7, 5), sp.Float(1.3), sp.Integer(2), sp.Rational(11, 4), sp.Float(0.8)][k % 5]
        if shape == "compound":
            return s ** 2 + syms[(k + 1) % 5] * sp.Rational(3, 2)
        if shape == "kinematic":
            # scalar built from four-momentum arrays (how dynamics classes are fed in a real model): the only
            # symbols inside are array symbols
            return [self.L.InvariantMass(self.ArraySum(self.p, self.q)) ** 2,
                    self.L.Energy(self.p) + self.L.InvariantMass(self.q),
                    self.L.InvariantMass(self.p)][k % 3]
        # nested unevaluated instance as argument
        return [self.D.BreakupMomentumSquared(s + 4, syms[(k + 1) % 5] / 4, syms[(k + 2) % 5] / 5),
                self.Kallen(s + 3, syms[(k + 1) % 5] / 3, syms[(k + 2) % 5] / 4) + 9,
                self.D.PhaseSpaceFactor(s + 5, syms[(k + 1) % 5] / 4, syms[(k + 2) % 5] / 4, name="inner")][k % 3]

    def array(self, shape: str, k: int):
        if shape in ("symbol", "number"):
            return [self.p, self.q][k % 2]
        if shape == "compound":
            return self.ArraySum(self.p, self.q)
        if shape == "kinematic":
            shape = "nested"
        return [self.L.NegativeMomentum(self.p),
                self.ArrayMultiplication(self.L.BoostMatrix(self.ArraySum(self.p, self.q)), self.p)][k % 2]

    def size(self, shape: str, k: int):
        return self.L.ArraySize(self.array("symbol", k))

    def integer(self, shape: str, k: int):
        if shape == "symbol":
            return sp.Integer(k % 4)
        if shape == "number":
            return sp.Integer((k + 1) % 3)
        if shape == "compound":
            return sp.Integer(2)
        return sp.Integer(1)


def generate_instances(classes: dict[str, type], pool: Pool) -> list[tuple[str, str, sp.Basic]]:
    """(class key, shape label, instance) for every public dataclass-like class x argument shape."""
    out = []
    for key, cls in sorted(classes.items()):
        if not dataclasses.is_dataclass(cls) or cls.__name__.startswith("_"):
            continue
        fields = sympy_fields(cls)
        extras = non_sympy_fields(cls)
        for si, shape in enumerate(SHAPES):
            for variant in range(2):
                args = []
                for fi, f in enumerate(fields):
                    sh = shape if (fi == variant % max(1, len(fields)) or shape in ("symbol",)) else "symbol"
                    if f.name in ARRAY_FIELDS:
                        args.append(pool.array(sh, fi + variant))
                    elif f.name in SIZE_FIELDS:
                        args.append(pool.size(sh, fi + variant))
                    elif f.name in INT_FIELDS:
                        args.append(pool.integer(sh, fi + si + variant))
                    else:
                        args.append(pool.scalar(sh, fi + variant))
                kwargs = {}
                for f in extras:
                    if f.name == "phsp_factor":
                        kwargs[f.name] = pool.phsp[(si + variant) % len(pool.phsp)]
                    elif f.name == "name":
                        kwargs[f.name] = [None, "custom", R"\tilde{n}"][(si + variant) % 3]
                for f in extras:   # toy layouts have no defaults
                    if f.name not in kwargs and f.default is dataclasses.MISSING:
                        kwargs[f.name] = None if f.name == "name" else pool.phsp[0]
                try:
                    inst = build(cls, args, kwargs)
                except Exception as exc:  # noqa: BLE001
                    out.append((key, f"{shape}/{variant}", exc))
                    continue
                out.append((key, f"{shape}/{variant}", inst))
                if extras and variant == 0 and shape in ("symbol", "nested", "kinematic"):
                    # full cross product of the non-SymPy attribute values (default / non-default in every combination,
                    # passed explicitly and left out)
                    choices = []
                    for f in extras:
                        if f.name == "phsp_factor":
                            choices.append([("phsp_factor", c) for c in pool.phsp] + [("phsp_factor", dataclasses.MISSING)])
                        elif f.name == "name":
                            choices.append([("name", v) for v in (None, "custom", R"\Gamma_1")] + [("name", dataclasses.MISSING)])
                    import itertools  # noqa: PLC0415
                    for ci, combo in enumerate(itertools.product(*choices)):
                        kw = {k: v for k, v in combo if v is not dataclasses.MISSING}
                        if any(f.name not in kw and f.default is dataclasses.MISSING for f in extras):
                            continue
                        try:
                            out.append((key, f"{shape}-attrs/{ci}", build(cls, args, kw)))
                        except Exception as exc:  # noqa: BLE001
                            out.append((key, f"{shape}-attrs/{ci}", exc))
    return out


def random_instance(cls, pool: Pool, rng):
    """One instance of a dataclass-like class with every argument shape and every non-SymPy attribute drawn
    independently (shape label 'random')."""
    args = []
    for fi, f in enumerate(sympy_fields(cls)):
        sh = SHAPES[int(rng.integers(len(SHAPES)))]
        k = int(rng.integers(0, 12))
        if f.name in ARRAY_FIELDS:
            args.append(pool.array(sh, k))
        elif f.name in SIZE_FIELDS:
            args.append(pool.size(sh, k))
        elif f.name in INT_FIELDS:
            args.append(pool.integer(sh, k))
        else:
            args.append(pool.scalar(sh, k))
    kwargs = {}
    for f in non_sympy_fields(cls):
        if rng.uniform() < 0.25 and f.default is not dataclasses.MISSING:
            continue  # leave the default
        if f.name == "phsp_factor":
            kwargs[f.name] = pool.phsp[int(rng.integers(len(pool.phsp)))]
        elif f.name == "name":
            kwargs[f.name] = [None, "custom", R"\tilde{n}", R"\Gamma_1"][int(rng.integers(4))]
    return build(cls, args, kwargs)


def helper_instances(pool: Pool) -> list[tuple[str, str, sp.Basic]]:
    """Hand-built instances of the helper classes that are not dataclass-like."""
    from ampform.sympy import PoolSum, UnevaluatableIntegral  # noqa: PLC0415
    from ampform.sympy._array_expressions import ArrayAxisSum, ArrayMultiplication, ArraySlice, ArraySum, ArraySymbol, MatrixMultiplication  # noqa: PLC0415
    from ampform.sympy.math import ComplexSqrt  # noqa: PLC0415

    L = pool.L
    p, q, x, y, z = pool.p, pool.q, pool.x, pool.y, pool.z
    i = sp.Symbol("i")
    n = L.ArraySize(p)
    items = [
        ("PoolSum", "flat", PoolSum(x ** i + y * i, (i, (0, 1, 2)))),
        ("PoolSum", "nested", PoolSum(pool.D.BreakupMomentumSquared(x + 3 + i, y / 4, z / 4), (i, (1, 2)))),
        ("ArraySum", "symbols", ArraySum(p, q)),
        ("ArraySum", "nested", ArraySum(p, L.NegativeMomentum(q))),
        ("ArrayAxisSum", "slice", ArrayAxisSum(ArraySlice(p, (slice(None), slice(1, None))) ** 2, axis=1)),
        ("ArraySlice", "energy", ArraySlice(p, (slice(None), 0))),
        ("ArraySlice", "nested", ArraySlice(ArraySum(p, q), (slice(None), 3))),
        # array symbols with an explicit shape (slices are normalised against the axis sizes)
        ("ArraySlice", "shaped", ArraySlice(ArraySymbol("xs", shape=(3, 4)), (slice(None), 0))),
        ("ArraySlice", "shaped-negative", ArraySlice(ArraySymbol("xs", shape=(5, 4)), (slice(1, -1), -1))),
        ("ArraySlice", "shaped-below-range", ArraySlice(ArraySymbol("xs", shape=(4, 3)), (slice(-5, None), 0))),      # numpy idiom A[-5:] on 4 rows
        ("ArraySlice", "shaped-far-below-range", ArraySlice(ArraySymbol("xs", shape=(4, 3)), (slice(-9, None), 1))),
        ("ArraySlice", "shaped-both-negative", ArraySlice(ArraySymbol("xs", shape=(6, 3)), (slice(-7, 3), 2))),
        ("ArrayAxisSum", "shaped", ArrayAxisSum(ArraySlice(ArraySymbol("xs", shape=(3, 4)), (slice(None), slice(1, None))), axis=1)),
        ("ArrayMultiplication", "boost", ArrayMultiplication(L.BoostMatrix(q), p)),
        ("ArrayMultiplication", "chain", ArrayMultiplication(L.BoostZMatrix(x / (x + 1), n), L.RotationYMatrix(-y, n), L.RotationZMatrix(z, n), p)),
        ("MatrixMultiplication", "two", MatrixMultiplication(L.RotationZMatrix(x, n), L.RotationYMatrix(y, n))),
        ("MatrixMultiplication", "boosts", MatrixMultiplication(L.BoostMatrix(L.NegativeMomentum(p)), L.BoostMatrix(q))),
        ("ComplexSqrt", "symbol", ComplexSqrt(x - y)),
        ("ComplexSqrt", "nested", ComplexSqrt(pool.D.BreakupMomentumSquared(x, y, z))),
        ("UnevaluatableIntegral", "simple", UnevaluatableIntegral(sp.exp(-x * sp.Symbol("t") ** 2), (sp.Symbol("t"), 0, y))),
    ]
    return [(f"helper:{a}", b, c) for a, b, c in items]


def harvest(expr, seen: dict | None = None, depth: int = 0) -> dict:
    """All ampform-class nodes reachable from expr by traversal and by unfolding (evaluate/doit(deep=False))."""
    seen = {} if seen is None else seen
    for node in sp.preorder_traversal(expr):
        if is_ampform_instance(node) and node not in seen:
            seen[node] = depth
            if depth < 3:
                unfolded = None
                try:
                    if hasattr(node, "evaluate"):
                        unfolded = node.evaluate()
                    elif hasattr(node, "get_definition"):
                        unfolded = node.get_definition()
                except Exception:  # noqa: BLE001
                    unfolded = None
                if unfolded is not None:
                    harvest(sp.sympify(unfolded), seen, depth + 1)
    return seen


# ---------------------------------------------------------------------------------------
# numeric evaluation of arbitrary instances
# ---------------------------------------------------------------------------------------
def _array_symbols(expr):
    return sorted(expr.atoms(sp.tensor.array.expressions.ArraySymbol), key=str)


def _scalar_symbols(expr):
    """Free scalar symbols; an ArraySymbol reports its own name Symbol as free symbol - drop those."""
    names = {str(a.name) for a in _array_symbols(expr)}
    return sorted((s for s in expr.free_symbols if isinstance(s, sp.Symbol) and s.name not in names), key=str)


def random_env(expr, rng, n: int = 5) -> dict:
    env = {}
    from vmon.workloads.events import gen_events  # noqa: PLC0415

    arr = _array_symbols(expr)
    if arr:
        ev = gen_events(4.0 + rng.uniform(), [0.3, 0.5, 0.2, 0.7][: max(2, len(arr))] + [0.4] * max(0, len(arr) - 4), n, rng)
        for k_, a in enumerate(sorted(arr, key=str)):
            env[a] = ev[k_ % len(ev)]
    for s in _scalar_symbols(expr):
        if s not in env:
            if s.is_integer:
                env[s] = int(rng.integers(0, 3))
            else:
                env[s] = rng.uniform(1.1, 2.9, n) if not arr else rng.uniform(0.2, 0.9, n)
    return env


def numeric(expr, env, unfolded: bool = True, cse: bool = True):
    """Route A: lambdify (after doit() when ``unfolded``).  Returns ndarray or raises."""
    e = expr.doit() if unfolded else expr
    if isinstance(e, sp.Expr):
        e2 = e.doit() if unfolded else e
    else:
        e2 = e
    fs = _scalar_symbols(e2) + _array_symbols(e2)
    f = sp.lambdify(fs, e2, cse=cse)
    with np.errstate(all="ignore"):
        return np.asarray(f(*[env[s] for s in fs]))


def same(a, b, rtol=1e-9) -> bool:
    a, b = np.asarray(a), np.asarray(b)
    try:
        a, b = np.broadcast_arrays(a, b)
    except ValueError:
        return False
    with np.errstate(all="ignore"):
        ok = np.isclose(a, b, rtol=rtol, atol=1e-12, equal_nan=True) | (~np.isfinite(a) & ~np.isfinite(b))
    return bool(np.all(ok))


def same_up_to_conditioning(compute_a, compute_b, env, rng, rtol=1e-9) -> bool:
    """``same`` with the empirical-conditioning term of DESIGN 7.2: the two computations may differ by 1e3 x the change either
    shows under three 1e-13 relative perturbations of the float inputs (cancellation in Chew-Mandelstam logs, Kallen of
    hierarchical arguments, ...).  Only called after the plain comparison failed."""
    with np.errstate(all="ignore"):
        a, b = np.asarray(compute_a(env)), np.asarray(compute_b(env))
        try:
            a, b = np.broadcast_arrays(a, b)
        except ValueError:
            return False
        noise = np.zeros(a.shape)
        for _ in range(3):
            env2 = {k: (v * (1 + 1e-13 * rng.normal(size=np.shape(v))) if isinstance(v, np.ndarray) and v.dtype.kind == "f" else v)
                    for k, v in env.items()}
            for comp, base in ((compute_a, a), (compute_b, b)):
                d = np.abs(np.asarray(comp(env2)) - base)
                noise = np.maximum(noise, np.where(np.isfinite(d), d, np.inf))
        ok = (np.abs(a - b) <= rtol * (np.abs(a) + np.abs(b)) + 1e-12 + 1e3 * noise) | (~np.isfinite(a) & ~np.isfinite(b))
        if np.all(ok):
            return True
        # values on a branch cut of a square root / logarithm (negative real argument): the branch taken depends on the sign of a
        # zero imaginary part, i.e. on the order of operations.  Move every float input off the real axis in both directions; if the
        # two computations agree there, the disagreement on the axis is the cut, not a difference between the two codes.
        for sgn in (1, -1):
            env3 = {k: (v.astype(complex) * (1 + sgn * 1e-7j) if isinstance(v, np.ndarray) and v.dtype.kind == "f" and v.ndim == 1 else v)
                    for k, v in env.items()}
            try:
                a3, b3 = np.asarray(compute_a(env3)), np.asarray(compute_b(env3))
                a3, b3 = np.broadcast_arrays(a3, b3)
            except Exception:  # noqa: BLE001
                return False
            ok3 = (np.abs(a3 - b3) <= 1e-6 * (np.abs(a3) + np.abs(b3)) + 1e-12) | (~np.isfinite(a3) & ~np.isfinite(b3))
            if not np.all(ok3 | ok):
                return False
    return True


def rebuild(obj):
    """A structurally equal object constructed afresh in *this* process (bottom-up through the constructors): its hash is
    computed here, so it exposes cached state that an unpickled object may have carried over from another process."""
    if not isinstance(obj, sp.Basic) or not obj.args:
        return obj
    args = [rebuild(a) for a in obj.args]
    cls = type(obj)
    if dataclasses.is_dataclass(cls):
        return build(cls, args, {f.name: getattr(obj, f.name) for f in non_sympy_fields(cls)})
    return obj.func(*args)
