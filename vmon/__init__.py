"""vmon — runtime monitors for ComPWA/ampform (see /verif/DESIGN.md)."""
