"""Worker entry point: python -m vmon.worker <PID> <tier> <seed> <shard>."""
from __future__ import annotations

import json
import sys
from pathlib import Path


def main() -> int:
    pid, tier, seed, shard = sys.argv[1], sys.argv[2], int(sys.argv[3]), int(sys.argv[4])
    from vmon import sut  # noqa: F401  (binds ampform to the working tree)
    import numpy as np
    from vmon.core import Recorder, run_cases
    from vmon.runner import EVID, load_prop

    rundir = EVID / "runs" / pid
    cases = json.loads((rundir / "plan.json").read_text())
    idxs = json.loads((rundir / f"shard{shard}.cases.json").read_text())
    mod = load_prop(pid)
    rec = Recorder(pid, shard, rundir / f"shard{shard}.jsonl")
    ctx = {"tier": tier, "seed": seed, "np": np, "shard": shard}
    timeout = getattr(mod, "CASE_TIMEOUT", {"quick": 240, "thorough": 1200})[tier]
    import signal

    def _term(signum, frame):  # noqa: ARG001
        raise SystemExit(3)      # the coordinator's wall budget ran out: keep what was observed (finally: rec.close())
    signal.signal(signal.SIGTERM, _term)
    try:
        run_cases(mod, [cases[i] for i in idxs], rec, ctx, timeout)
    finally:
        signal.signal(signal.SIGTERM, signal.SIG_IGN)
        rec.close()
    return 0


if __name__ == "__main__":
    sys.exit(main())
