"""Coordinator: plan -> shard over worker processes -> aggregate -> verdict + evidence."""
from __future__ import annotations

import importlib
import json
import os
import shutil
import subprocess
import sys
import time
from collections import Counter, defaultdict
from pathlib import Path

VERIF = Path(__file__).resolve().parent.parent
EVID = Path(os.environ.get("VERIF_EVIDENCE_DIR", str(VERIF / "evidence")))
PY = "/venv/bin/python"
PROPS = [f"C{i:02d}" for i in range(1, 21)]


def _rel(p: Path) -> str:
    try:
        return str(p.relative_to(VERIF))
    except ValueError:
        return str(p)


def load_prop(pid: str):
    return importlib.import_module(f"vmon.props.{pid.lower()}")


def load_known() -> dict:
    p = VERIF / "known_findings.json"
    if not p.exists():
        return {"findings": [], "fixed": []}
    return json.loads(p.read_text())


def match_finding(finding: dict, viol: dict) -> bool:
    if finding.get("status", "known") != "known":
        return False
    if finding["property"] != viol["property"]:
        return False
    kinds = finding["kind"] if isinstance(finding["kind"], list) else [finding["kind"]]
    if viol["kind"] not in kinds:
        return False
    feats = viol.get("features") or {}
    for k, v in (finding.get("match") or {}).items():
        if feats.get(k) != v:
            return False
    return True


def _lpt(cases: list[dict], n: int) -> list[list[int]]:
    order = sorted(range(len(cases)), key=lambda i: -float(cases[i].get("cost", 1.0)))
    loads = [0.0] * n
    shards: list[list[int]] = [[] for _ in range(n)]
    for i in order:
        k = loads.index(min(loads))
        shards[k].append(i)
        loads[k] += float(cases[i].get("cost", 1.0))
    return shards


def run_check(pid: str, tier: str, seed: int, jobs: int | None = None) -> int:
    t0 = time.time()
    from vmon import sut  # noqa: PLC0415

    mod = load_prop(pid)
    cases = mod.plan(tier, seed)
    for i, c in enumerate(cases):
        c["idx"] = i
    jobs = jobs or int(os.environ.get("VERIF_JOBS", "16"))
    nshards = max(1, min(jobs, len(cases)))
    shards = _lpt(cases, nshards)
    rundir = EVID / "runs" / pid
    if rundir.exists():
        shutil.rmtree(rundir)
    rundir.mkdir(parents=True)
    (rundir / "plan.json").write_text(json.dumps(cases))
    budget = getattr(mod, "WALL_BUDGET", {"quick": 900, "thorough": 7200})[tier]
    procs = []
    for k, idxs in enumerate(shards):
        (rundir / f"shard{k}.cases.json").write_text(json.dumps(idxs))
        env = dict(os.environ)
        env["PYTHONHASHSEED"] = str((seed * 7919 + k * 104729 + 1) % 4294967295)
        env["VERIF_SEED"] = str(seed)
        env["VERIF_TIER"] = tier
        env.setdefault("OMP_NUM_THREADS", "1")
        env.setdefault("OPENBLAS_NUM_THREADS", "1")
        env.setdefault("MKL_NUM_THREADS", "1")
        log = open(rundir / f"shard{k}.log", "w")  # noqa: SIM115
        p = subprocess.Popen(
            [PY, "-W", "ignore", "-m", "vmon.worker", pid, tier, str(seed), str(k)],
            cwd=str(VERIF), env=env, stdout=log, stderr=subprocess.STDOUT)
        procs.append((k, p, log, env["PYTHONHASHSEED"]))
    crashed = []
    deadline = t0 + budget
    for k, p, log, _hs in procs:
        try:
            p.wait(timeout=max(1.0, deadline - time.time()))
        except subprocess.TimeoutExpired:
            p.terminate()            # SIGTERM: the worker writes the summary of what it observed so far, then exits
            try:
                p.wait(timeout=20)
            except subprocess.TimeoutExpired:
                p.kill()
                p.wait()
            crashed.append((k, "coordinator watchdog"))
        log.close()
        if p.returncode not in (0, None) and (k, "coordinator watchdog") not in crashed:
            crashed.append((k, f"exit {p.returncode}"))
    return aggregate(pid, tier, seed, mod, cases, rundir, crashed,
                     [hs for *_x, hs in procs], sut.git_state(), t0)


def aggregate(pid, tier, seed, mod, cases, rundir, crashed, hashseeds, git, t0) -> int:
    evaluations = 0
    hits: Counter = Counter()
    distinct: dict[str, bool] = {}
    strata: dict[str, Counter] = defaultdict(Counter)
    samples: dict[str, list] = defaultdict(list)
    notes: Counter = Counter()
    violations: list[dict] = []
    inconcl: list[dict] = []
    summaries = 0
    for f in sorted(rundir.glob("shard*.jsonl")):
        for line in f.read_text().splitlines():
            try:
                ev = json.loads(line)
            except json.JSONDecodeError:
                continue
            if ev["type"] == "violation":
                violations.append(ev)
            elif ev["type"] == "inconclusive":
                inconcl.append(ev)
            elif ev["type"] == "summary":
                summaries += 1
                evaluations += ev["evaluations"]
                hits.update(ev["hits"])
                for k, v in ev["distinct"].items():
                    distinct[k] = distinct.get(k, False) or v
                for name, c in ev["strata"].items():
                    strata[name].update(c)
                for tag, lst in ev["samples"].items():
                    for s in lst:
                        if len(samples[tag]) < (2 if tag != "slow_case" else 8):
                            samples[tag].append(s)
                notes.update(ev["notes"])
    nshards = len(list(rundir.glob("shard*.cases.json")))
    for k in range(nshards):
        f = rundir / f"shard{k}.jsonl"
        if not f.exists() or '"type": "summary"' not in f.read_text():
            if not any(c[0] == k for c in crashed):
                crashed.append((k, "no summary"))

    known = load_known()
    kf_hits: Counter = Counter()
    new_violations = []
    for v in violations:
        matched = [f for f in known["findings"] if match_finding(f, v)]
        if matched:
            kf_hits[matched[0]["id"]] += 1
        else:
            new_violations.append(v)

    n_nontrivial = sum(1 for v in distinct.values() if v)
    floors = getattr(mod, "FLOORS", {}).get(tier, {})
    reasons = []
    if evaluations < floors.get("evaluations", 1):
        reasons.append(f"evaluations {evaluations} < floor {floors.get('evaluations', 1)}")
    if n_nontrivial < floors.get("distinct_nontrivial", 2):
        reasons.append(f"distinct_nontrivial {n_nontrivial} < floor {floors.get('distinct_nontrivial', 2)}")
    for h in floors.get("hooks", []):
        if hits.get(h, 0) == 0:
            reasons.append(f"deciding hook {h} never reached")
    if crashed:
        reasons.append(f"worker(s) did not finish: {crashed}")
    max_inc = floors.get("max_inconclusive_cases", max(2, len(cases) // 20))
    if len(inconcl) > max_inc:
        reasons.append(f"{len(inconcl)} inconclusive cases > {max_inc}")

    # replay files + VIOLATION lines (deduplicated by kind + case)
    replay_dir = EVID / "replay"
    replay_dir.mkdir(parents=True, exist_ok=True)
    seen = set()
    printed = 0
    from vmon.core import digest  # noqa: PLC0415
    for v in new_violations:
        key = (v["kind"], digest(v.get("case")), digest(v.get("features")))
        if key in seen:
            continue
        seen.add(key)
        rp = replay_dir / f"{pid}-{digest([v['kind'], v.get('case'), v.get('what')])}.json"
        rp.write_text(json.dumps({"property": pid, "tier": tier, "seed": seed, **v}, indent=1))
        if printed < 25:
            print(f"VIOLATION property={pid} replay={_rel(rp)}  kind={v['kind']} :: {v['what'][:300]}")
            printed += 1
    if len(seen) > printed:
        print(f"... {len(seen) - printed} further distinct violations (see {_rel(replay_dir)})")
    for f in known["findings"]:
        if kf_hits.get(f["id"]):
            print(f"KNOWN-FINDING: property={pid} {f['what']} [{f['id']}, observed {kf_hits[f['id']]}x this run]")

    sample_list = []
    for tag, lst in sorted(samples.items()):
        for s in lst:
            sample_list.append({"tag": tag, "case": s})
    if not sample_list:
        sample_list = [{"tag": "planned-case", "case": c} for c in cases[:3]]
    sample_list = sample_list[:40]

    status = "violated" if new_violations else ("inconclusive" if reasons else "held")
    evidence = {
        "property_id": pid,
        "tier": tier,
        "seed": int(seed),
        "level": getattr(mod, "LEVEL", "exploration"),
        "coverage": {
            "evaluations": int(evaluations),
            "distinct_nontrivial": int(n_nontrivial),
            "rule": getattr(mod, "RULE", ""),
            "samples": sample_list,
            "distinct_cases": len(distinct),
            "planned_cases": len(cases),
            "monitor_hits": dict(sorted(hits.items())),
            "strata": {k: dict(sorted(v.items())) for k, v in sorted(strata.items())},
            "notes": dict(notes),
            "known_finding_hits": dict(kf_hits),
            "inconclusive_cases": len(inconcl),
            "inconclusive_samples": [{"why": e["why"], "detail": str(e.get("detail"))[:400],
                                      "case": e.get("case")} for e in inconcl[:5]],
            "status": status,
            "status_reasons": reasons,
            "workers": nshards,
            "worker_hash_seeds": hashseeds,
            "code_under_test": git,
        },
        "assumptions": list(getattr(mod, "ASSUMPTIONS", [])),
        "wall_s": round(time.time() - t0, 2),
        "violations": len(seen),
    }
    EVID.mkdir(exist_ok=True)
    (EVID / f"{pid}.json").write_text(json.dumps(evidence, indent=1))
    print(f"[{pid}] {status}: evaluations={evaluations} distinct={len(distinct)} nontrivial={n_nontrivial} "
          f"violations={len(seen)} known_finding_hits={sum(kf_hits.values())} inconclusive_cases={len(inconcl)} "
          f"wall={evidence['wall_s']}s")
    if new_violations:
        return 1
    if reasons:
        for r in reasons:
            print(f"INCONCLUSIVE property={pid} {r}")
        return 2
    return 0


def replay(pid: str, path: str) -> int:
    from vmon import sut  # noqa: F401, PLC0415
    from vmon.core import Recorder, run_cases  # noqa: PLC0415
    import numpy as np  # noqa: PLC0415

    data = json.loads(Path(path).read_text())
    mod = load_prop(pid)
    rec = Recorder(pid, -1, None)
    ctx = {"tier": data.get("tier", "quick"), "seed": data.get("seed", 0), "np": np, "replay": True}
    run_cases(mod, [data["case"]], rec, ctx, 3600)
    known = load_known()
    rc = 0
    for v in rec.violations:
        if any(match_finding(f, v) for f in known["findings"]):
            print(f"KNOWN-FINDING: property={pid} {v['kind']} :: {v['what'][:300]}")
        else:
            print(f"VIOLATION property={pid} replay={path}  kind={v['kind']} :: {v['what'][:400]}")
            rc = 1
    for e in rec.inconclusive:
        print("INCONCLUSIVE", e["why"], str(e.get("detail"))[:500])
    print(f"[{pid}] replay: evaluations={rec.evaluations} violations={len(rec.violations)}")
    return rc
