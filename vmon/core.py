"""Monitor layer: recorder, contract attachment, worker loop.

A *monitor* is a named oracle attached to a real ampform function (``attach``) or run
over recorded observations.  Monitors never raise into the code they watch: they record
an event and let execution continue, so one defect cannot mask the next.  All events go
to a JSONL file per worker; the coordinator (``vmon.runner``) aggregates them offline.
"""
from __future__ import annotations

import contextlib
import functools
import hashlib
import json
import os
import signal
import sys
import time
import traceback
from collections import Counter, defaultdict
from pathlib import Path
from typing import Any, Callable


def jsonable(obj: Any, depth: int = 0) -> Any:
    """Best-effort conversion of witnesses to JSON."""
    import numpy as np  # noqa: PLC0415

    if depth > 6:
        return repr(obj)[:200]
    if obj is None or isinstance(obj, (bool, int, str)):
        return obj
    if isinstance(obj, float):
        return obj if obj == obj and abs(obj) != float("inf") else repr(obj)
    if isinstance(obj, complex):
        return {"re": jsonable(obj.real), "im": jsonable(obj.imag)}
    if isinstance(obj, (np.integer,)):
        return int(obj)
    if isinstance(obj, (np.floating,)):
        return jsonable(float(obj))
    if isinstance(obj, (np.complexfloating,)):
        return jsonable(complex(obj))
    if isinstance(obj, np.ndarray):
        if obj.size > 64:
            return {"shape": list(obj.shape), "head": jsonable(obj.ravel()[:16].tolist(), depth + 1)}
        return jsonable(obj.tolist(), depth + 1)
    if isinstance(obj, dict):
        return {str(k): jsonable(v, depth + 1) for k, v in obj.items()}
    if isinstance(obj, (list, tuple, set, frozenset)):
        return [jsonable(v, depth + 1) for v in obj]
    return repr(obj)[:300]


def digest(obj: Any) -> str:
    return hashlib.sha256(json.dumps(jsonable(obj), sort_keys=True).encode()).hexdigest()[:12]


class Recorder:
    """Per-worker event sink."""

    MAX_SAMPLES_PER_TAG = 2

    def __init__(self, prop: str, shard: int, path: Path | None) -> None:
        self.prop = prop
        self.shard = shard
        self.path = path
        self.evaluations = 0
        self.hits: Counter[str] = Counter()
        self.distinct: dict[str, bool] = {}  # key -> nontrivial
        self.strata: dict[str, Counter] = defaultdict(Counter)
        self.samples: dict[str, list] = defaultdict(list)
        self.violations: list[dict] = []
        self.inconclusive: list[dict] = []
        self.notes: Counter[str] = Counter()
        self.current_case: dict | None = None
        self._fh = open(path, "a", buffering=1) if path else None  # noqa: SIM115

    # -- counters ----------------------------------------------------------------
    def evaluation(self, n: int = 1) -> None:
        """One oracle verdict issued (pass or fail)."""
        self.evaluations += n

    def hit(self, hook: str, n: int = 1) -> None:
        self.hits[hook] += n

    def case(self, key: Any, nontrivial: bool, **strata: Any) -> None:
        """Register a distinct case (by key) and whether it is non-trivial."""
        k = key if isinstance(key, str) else digest(key)
        self.distinct[k] = self.distinct.get(k, False) or bool(nontrivial)
        for name, value in strata.items():
            self.strata[name][str(value)] += 1

    def stratum(self, name: str, value: Any, n: int = 1) -> None:
        self.strata[name][str(value)] += n

    def note(self, what: str, n: int = 1) -> None:
        self.notes[what] += n

    def sample(self, tag: str, obj: Any) -> None:
        if len(self.samples[tag]) < self.MAX_SAMPLES_PER_TAG:
            self.samples[tag].append(jsonable(obj))

    # -- verdict events ----------------------------------------------------------
    def violation(self, kind: str, what: str, witness: Any = None, features: dict | None = None) -> None:
        ev = {
            "type": "violation", "property": self.prop, "kind": kind, "what": what,
            "witness": jsonable(witness), "features": jsonable(features or {}),
            "case": jsonable(self.current_case), "shard": self.shard,
        }
        self.violations.append(ev)
        self._write(ev)

    def check(self, ok: bool, kind: str, what: str, witness: Any = None, features: dict | None = None) -> bool:
        """Issue one verdict: counts an evaluation, records a violation when not ok."""
        self.evaluations += 1
        if not ok:
            self.violation(kind, what, witness, features)
        return bool(ok)

    def inconclusive_event(self, why: str, detail: Any = None) -> None:
        ev = {"type": "inconclusive", "property": self.prop, "why": why,
              "detail": jsonable(detail), "case": jsonable(self.current_case), "shard": self.shard}
        self.inconclusive.append(ev)
        self._write(ev)

    def _write(self, ev: dict) -> None:
        if self._fh:
            self._fh.write(json.dumps(ev) + "\n")

    def summary(self) -> dict:
        return {
            "type": "summary", "property": self.prop, "shard": self.shard,
            "evaluations": self.evaluations, "hits": dict(self.hits),
            "distinct": self.distinct, "strata": {k: dict(v) for k, v in self.strata.items()},
            "samples": dict(self.samples), "notes": dict(self.notes),
            "n_violations": len(self.violations), "n_inconclusive": len(self.inconclusive),
        }

    def close(self) -> None:
        self._write(self.summary())
        if self._fh:
            self._fh.close()
            self._fh = None


# ---------------------------------------------------------------------------------------
# contract attachment (icontract idiom: named conditions, snapshot before / ensure after,
# record-and-continue, evaluation counters, alias rebinding)
# ---------------------------------------------------------------------------------------
_ATTACHED: list[tuple[Any, str, Any]] = []


def attach(owner: Any, name: str, *, hook: str, rec: Recorder,
           snapshot: Callable | None = None, ensure: Callable | None = None,
           on_raise: Callable | None = None, rebind: bool = True) -> None:
    """Wrap ``owner.name`` in place.

    ``snapshot(*args, **kw) -> OLD`` runs before the call, ``ensure(OLD, result, *args,
    **kw)`` after it (both may use ``rec``); ``on_raise(OLD, exc, *args, **kw)`` when the
    real function raises.  Exceptions inside a monitor are recorded as inconclusive, never
    propagated.  Module-level aliases created by ``from m import f`` are re-bound too.
    """
    raw = owner.__dict__[name] if isinstance(owner, type) and name in owner.__dict__ else getattr(owner, name)
    is_static = isinstance(raw, staticmethod)
    is_class = isinstance(raw, classmethod)
    func = raw.__func__ if (is_static or is_class) else raw
    if isinstance(owner, type) and not (is_static or is_class) and not callable(raw) and hasattr(raw, "__get__"):
        # descriptor that is not itself callable (functools.singledispatchmethod): bind it per call
        descriptor = raw

        def func(self, *args, **kwargs):  # noqa: F811
            return descriptor.__get__(self, type(self))(*args, **kwargs)
        func.__name__ = name
        func.__qualname__ = f"{owner.__name__}.{name}"
        func.__doc__ = getattr(descriptor, "__doc__", None)

    @functools.wraps(func)
    def wrapper(*args, **kwargs):
        rec.hit(hook)
        old = None
        if snapshot is not None:
            try:
                old = snapshot(*args, **kwargs)
            except Exception as exc:  # noqa: BLE001
                record_exception(rec, f"monitor snapshot {hook} raised", exc)
        try:
            result = func(*args, **kwargs)
        except Exception as exc:
            if on_raise is not None:
                try:
                    on_raise(old, exc, *args, **kwargs)
                except Exception as mexc:  # noqa: BLE001
                    record_exception(rec, f"monitor on_raise {hook} raised", mexc)
            raise
        if ensure is not None:
            try:
                ensure(old, result, *args, **kwargs)
            except Exception as exc:  # noqa: BLE001
                record_exception(rec, f"monitor ensure {hook} raised", exc)
        return result

    wrapper.__vmon_original__ = func  # type: ignore[attr-defined]
    new = staticmethod(wrapper) if is_static else classmethod(wrapper) if is_class else wrapper
    setattr(owner, name, new)
    _ATTACHED.append((owner, name, raw))
    if rebind and not isinstance(owner, type):
        n = rebind_aliases(func, wrapper)
        rec.hit(f"{hook}:aliases_rebound", n)


def rebind_aliases(old: Any, new: Any) -> int:
    """Re-bind references to ``old`` held in the globals of ampform modules."""
    count = 0
    for modname, mod in list(sys.modules.items()):
        if mod is None or not modname.startswith("ampform"):
            continue
        for k, v in list(vars(mod).items()):
            if v is old:
                setattr(mod, k, new)
                count += 1
    return count


def detach_all() -> None:
    while _ATTACHED:
        owner, name, raw = _ATTACHED.pop()
        setattr(owner, name, raw)


# ---------------------------------------------------------------------------------------
# watchdog
# ---------------------------------------------------------------------------------------
class CaseTimeout(BaseException):  # BaseException: monitors' generic `except Exception` must not swallow it
    pass


@contextlib.contextmanager
def watchdog(seconds: float):
    """Harness-protecting wall-clock limit; firing is *inconclusive*, never a verdict."""
    def handler(signum, frame):  # noqa: ARG001
        raise CaseTimeout(f"case exceeded {seconds}s")
    old = signal.signal(signal.SIGALRM, handler)
    t0 = time.time()
    outer_delay, _ = signal.setitimer(signal.ITIMER_REAL, seconds)
    try:
        yield
    finally:
        signal.setitimer(signal.ITIMER_REAL, 0)
        signal.signal(signal.SIGALRM, old)
        if outer_delay > 0:  # nested use: re-arm the enclosing watchdog with what is left of its budget
            signal.setitimer(signal.ITIMER_REAL, max(0.05, outer_delay - (time.time() - t0)))


def run_cases(mod: Any, cases: list[dict], rec: Recorder, ctx: dict, case_timeout: float) -> None:
    setup = getattr(mod, "setup_worker", None)
    if setup:
        try:
            setup(rec, ctx)
        except Exception as exc:  # noqa: BLE001
            rec.current_case = {"setup_worker": True}
            record_exception(rec, "setup_worker raised", exc)
            rec.current_case = None
            if _raised_in_sut(exc) is None:
                raise
            return
    for case in cases:
        rec.current_case = case
        t0 = time.time()
        try:
            with watchdog(case.get("timeout", case_timeout)):
                mod.run_case(case, rec, ctx)
        except CaseTimeout as exc:
            rec.inconclusive_event("watchdog", str(exc))
        except Exception as exc:  # noqa: BLE001
            # raised by ampform / generated code below the last harness frame: an observation about the system under
            # test (the unchanged tree is silent here on every swept seed); anything else is a harness failure
            record_exception(rec, "harness exception", exc)
        rec.stratum("case_seconds_decade", _decade(time.time() - t0))
        if time.time() - t0 > 30:
            rec.samples["slow_case"].append({"seconds": round(time.time() - t0, 1), "case": jsonable(case)})
        rec.current_case = None
    teardown = getattr(mod, "teardown_worker", None)
    if teardown:
        teardown(rec, ctx)


def record_exception(rec: "Recorder", context: str, exc: BaseException) -> None:
    """An exception that reached the harness: a violation (kind ``sut_raises``) when it was raised by ampform code or
    by NumPy code that ampform generated below the last harness frame, an inconclusive event otherwise."""
    where = _raised_in_sut(exc)
    if where is not None:
        rec.check(False, "sut_raises", f"{type(exc).__name__} raised in {where} ({context}): {str(exc)[:300]}",
                  {"traceback": "".join(traceback.format_exception(type(exc), exc, exc.__traceback__, limit=-6))},
                  {"raised_in": where, "exception": type(exc).__name__})
    else:
        rec.inconclusive_event(context, "".join(traceback.format_exception(type(exc), exc, exc.__traceback__, limit=8)) + repr(exc))


def _raised_in_sut(exc: BaseException) -> str | None:
    """'file:function' of the deepest ampform / generated-code frame if one lies below the last harness frame."""
    from vmon import sut  # noqa: PLC0415

    src = str(sut.SRC) if hasattr(sut, "SRC") else None
    here = os.path.dirname(os.path.abspath(__file__))
    tb = exc.__traceback__
    frames = []
    while tb is not None:
        frames.append((tb.tb_frame.f_code.co_filename, tb.tb_frame.f_code.co_name))
        tb = tb.tb_next
    last_harness = max((i for i, (f, _) in enumerate(frames) if os.path.abspath(f).startswith(here)), default=-1)
    found = None
    for f, name in frames[last_harness + 1:]:
        if f.startswith("<lambdifygenerated"):
            found = f"generated code:{name}"
        elif src and os.path.abspath(f).startswith(src):
            found = f"{os.path.relpath(os.path.abspath(f), src)}:{name}"
    return found


def _decade(x: float) -> str:
    if x < 0.1:
        return "<0.1s"
    if x < 1:
        return "0.1-1s"
    if x < 10:
        return "1-10s"
    if x < 100:
        return "10-100s"
    return ">100s"


def env_int(name: str, default: int) -> int:
    try:
        return int(os.environ.get(name, default))
    except ValueError:
        return default
