"""Numeric evaluation routes (DESIGN.md §1.2).

Route A      : expr.doit() + sympy.lambdify            (ampform's own printers)
Route A-fast : as A, with SymPy's WignerD/CG leaves replaced by numeric stand-ins
Route B      : memoised DAG interpreter that unfolds ampform classes through their own
               evaluate()/get_definition() and evaluates SymPy leaves in numpy
"""
from __future__ import annotations

import cmath
import math
from fractions import Fraction

import numpy as np
import sympy as sp
from sympy.physics.quantum.cg import CG
from sympy.physics.quantum.spin import WignerD


# ---------------------------------------------------------------------------------------
# Wigner D / CG numeric stand-ins (checked against SymPy in selftest_wigner)
# ---------------------------------------------------------------------------------------
def _r2(x) -> int:
    return int(round(2 * float(x)))


def wigner_d_small(j, m, mp, beta):
    """d^j_{m,mp}(beta), SymPy convention <j m|exp(-i beta Jy)|j mp>."""
    j2, m2, mp2 = _r2(j), _r2(m), _r2(mp)
    beta = np.asarray(beta, dtype=float)
    if abs(m2) > j2 or abs(mp2) > j2 or (j2 - m2) % 2 or (j2 - mp2) % 2:
        return np.zeros_like(beta)
    f = math.factorial
    jpm, jmm, jpmp, jmmp = (j2 + m2) // 2, (j2 - m2) // 2, (j2 + mp2) // 2, (j2 - mp2) // 2
    pref = math.sqrt(f(jpm) * f(jmm) * f(jpmp) * f(jmmp))
    out = np.zeros_like(beta)
    mmmp = (m2 - mp2) // 2  # m - mp
    kmin = max(0, -mmmp)
    kmax = min(jmm, jpmp)
    c, s = np.cos(beta / 2), np.sin(beta / 2)
    for k in range(kmin, kmax + 1):
        den = f(jpmp - k) * f(k) * f(mmmp + k) * f(jmm - k)
        out = out + (-1) ** (k + mmmp) * c ** (j2 - mmmp - 2 * k) * s ** (mmmp + 2 * k) / den
    return pref * out


def wigner_D_num(j, m, mp, alpha, beta, gamma):
    return (np.exp(-1j * float(m) * np.asarray(alpha)) * wigner_d_small(j, m, mp, beta)
            * np.exp(-1j * float(mp) * np.asarray(gamma)))


_CG_CACHE: dict[tuple, float] = {}


def cg_num(j1, m1, j2, m2, j3, m3) -> float:
    key = tuple(_r2(x) for x in (j1, m1, j2, m2, j3, m3))
    if key not in _CG_CACHE:
        _CG_CACHE[key] = float(CG(*[sp.Rational(v, 2) for v in key]).doit())
    return _CG_CACHE[key]


def cg_ref(j1, m1, j2, m2, j3, m3) -> float:
    """Independent CG (sympy.physics.wigner.clebsch_gordan: Racah formula)."""
    from sympy.physics.wigner import clebsch_gordan  # noqa: PLC0415

    r = lambda x: sp.Rational(_r2(x), 2)  # noqa: E731
    if abs(_r2(m1)) > _r2(j1) or abs(_r2(m2)) > _r2(j2) or abs(_r2(m3)) > _r2(j3):
        return 0.0
    return float(clebsch_gordan(r(j1), r(j2), r(j3), r(m1), r(m2), r(m3)))


def selftest_wigner(jmax2: int = 6) -> float:
    """Max deviation of wigner_D_num from SymPy's WignerD.doit() on a small grid."""
    worst = 0.0
    for a, b, c in [(0.3, 1.1, -0.7), (-2.0, 2.9, 0.4)]:
        for j2 in range(jmax2 + 1):
            for m2 in range(-j2, j2 + 1, 2):
                for mp2 in range(-j2, j2 + 1, 2):
                    j, m, mp = sp.Rational(j2, 2), sp.Rational(m2, 2), sp.Rational(mp2, 2)
                    ref = complex(WignerD(j, m, mp, a, b, c).doit().evalf())
                    got = complex(wigner_D_num(j, m, mp, a, b, c))
                    worst = max(worst, abs(ref - got))
    return worst


_WD = sp.Function("WignerD_num")
_CGF = sp.Function("CG_num")
_FAST_MODULES = [{"WignerD_num": wigner_D_num, "CG_num": cg_num}, "numpy"]


def replace_wigner(expr: sp.Expr) -> sp.Expr:
    rep = {}
    for n in expr.atoms(WignerD):
        rep[n] = _WD(*n.args)
    for n in expr.atoms(CG):
        rep[n] = _CGF(*n.args)
    return expr.xreplace(rep) if rep else expr


def lambdify_fast(symbols, expr, cse=True):
    e = replace_wigner(expr).doit()
    e = replace_wigner(e)
    return sp.lambdify(symbols, e, modules=_FAST_MODULES, cse=cse)


def lambdify_plain(symbols, expr, cse=True):
    return sp.lambdify(symbols, expr.doit(), cse=cse)


def eval_expr(expr: sp.Expr, values: dict, fast: bool = True, cse: bool = True):
    """Evaluate expr with free symbols taken from values (symbol -> scalar/array)."""
    if fast:
        e = replace_wigner(expr).doit()
        e = replace_wigner(e)
        fs = sorted(e.free_symbols, key=str)
        f = sp.lambdify(fs, e, modules=_FAST_MODULES, cse=cse)
    else:
        e = expr.doit()
        fs = sorted(e.free_symbols, key=str)
        f = sp.lambdify(fs, e, cse=cse)
    missing = [s for s in fs if s not in values]
    if missing:
        raise KeyError(f"no value for {missing}")
    with np.errstate(all="ignore"):
        return np.asarray(f(*[values[s] for s in fs]))


def momentum_index(sym) -> int:
    return int(str(sym.name if hasattr(sym, "name") else sym)[1:])


def eval_kinematics(kinematic_variables: dict, events: dict[int, np.ndarray], params: dict | None = None,
                    cse: bool = True) -> dict:
    """Route A on a dict symbol -> expr(four-momentum symbols)."""
    out = {}
    params = params or {}
    for sym, expr in kinematic_variables.items():
        e = expr.xreplace(params).doit() if params else expr.doit()
        fs = sorted(e.free_symbols, key=str)
        f = sp.lambdify(fs, e, cse=cse)
        with np.errstate(all="ignore"):
            out[sym] = np.asarray(f(*[events[momentum_index(s)] for s in fs]))
    return out


def eval_model(model, events: dict[int, np.ndarray], params: dict | None = None, fast: bool = True,
               cse: bool = True, expression: sp.Expr | None = None):
    """Full user pipeline: four-momenta -> kinematic variables -> intensity."""
    pvals = dict(model.parameter_defaults)
    if params:
        pvals.update(params)
    kv = eval_kinematics(model.kinematic_variables, events, pvals, cse=cse)
    values = dict(kv)
    values.update(pvals)
    expr = model.expression if expression is None else expression
    return eval_expr(expr, values, fast=fast, cse=cse), kv


# ---------------------------------------------------------------------------------------
# Route B: interpreter
# ---------------------------------------------------------------------------------------
class Unsupported(Exception):
    pass


def _csqrt(x):
    x = np.asarray(x)
    if np.iscomplexobj(x):
        return np.where((x.real < 0) & (x.imag == 0), 1j * np.sqrt(np.abs(x.real)), np.sqrt(x + 0j))
    return np.where(x < 0, 1j * np.sqrt(np.abs(x)), np.sqrt(np.abs(x)) + 0j)


def neval(expr, env: dict, memo: dict | None = None):
    """Evaluate a SymPy DAG numerically; ampform classes are unfolded via evaluate()."""
    if memo is None:
        memo = {}

    def ev(e):
        try:
            if e in memo:
                return memo[e]
        except TypeError:
            return _ev(e)
        v = _ev(e)
        memo[e] = v
        return v

    def _ev(e):  # noqa: C901, PLR0911, PLR0912
        if e in env:
            return env[e]
        if isinstance(e, (int, float, complex, np.ndarray)):
            return e
        if e.is_Number:
            if e.is_Integer:
                return int(e)
            if e.is_Rational:
                return float(Fraction(int(e.p), int(e.q)))
            return float(e)
        if e is sp.I:
            return 1j
        if e is sp.pi:
            return math.pi
        if e is sp.E:
            return math.e
        if e is sp.nan:
            return float("nan")
        if e is sp.oo:
            return float("inf")
        if e is sp.zoo:
            return complex("nan")
        if isinstance(e, sp.Indexed):
            base = env[e.base]
            idx = tuple(int(ev(i)) for i in e.indices)
            return base[idx]
        if isinstance(e, sp.Symbol):
            raise KeyError(e)
        name = type(e).__name__
        module = type(e).__module__
        if name == "ComplexSqrt":
            return _csqrt(ev(e.args[0]))
        if module.startswith("ampform") and hasattr(e, "evaluate"):
            return ev(e.evaluate())
        if isinstance(e, sp.Add):
            r = 0
            for a in e.args:
                r = r + ev(a)
            return r
        if isinstance(e, sp.Mul):
            r = 1
            for a in e.args:
                r = r * ev(a)
            return r
        if isinstance(e, sp.Pow):
            b = ev(e.base)
            x = ev(e.exp)
            if isinstance(x, int):
                return b ** x if x >= 0 else 1 / (b ** (-x))
            with np.errstate(all="ignore"):
                if isinstance(x, float) and np.all(np.isreal(b)) and np.all(np.real(b) >= 0):
                    return np.power(np.real(b), x)
                return np.power(np.asarray(b) + 0j, x)
        if isinstance(e, sp.Sum):
            body = e.args[0]
            lims = e.args[1:]
            if len(lims) != 1:
                raise Unsupported(e)
            k, a, b = lims[0]
            a, b = int(ev(a)), int(ev(b))
            r = 0
            for i in range(a, b + 1):
                env2 = dict(env)
                env2[k] = i
                r = r + neval(body, env2)
            return r
        if isinstance(e, sp.Abs):
            return np.abs(ev(e.args[0]))
        if isinstance(e, sp.conjugate):
            return np.conj(ev(e.args[0]))
        if isinstance(e, sp.re):
            return np.real(ev(e.args[0]))
        if isinstance(e, sp.im):
            return np.imag(ev(e.args[0]))
        if isinstance(e, sp.sign):
            return np.sign(ev(e.args[0]))
        if isinstance(e, sp.exp):
            return np.exp(ev(e.args[0]))
        if isinstance(e, sp.log):
            with np.errstate(all="ignore"):
                return np.log(np.asarray(ev(e.args[0])) + 0j)
        if isinstance(e, sp.sin):
            return np.sin(ev(e.args[0]))
        if isinstance(e, sp.cos):
            return np.cos(ev(e.args[0]))
        if isinstance(e, sp.tan):
            return np.tan(ev(e.args[0]))
        if isinstance(e, sp.acos):
            with np.errstate(all="ignore"):
                return np.arccos(ev(e.args[0]))
        if isinstance(e, sp.asin):
            with np.errstate(all="ignore"):
                return np.arcsin(ev(e.args[0]))
        if isinstance(e, sp.atan):
            return np.arctan(ev(e.args[0]))
        if isinstance(e, sp.atan2):
            return np.arctan2(ev(e.args[0]), ev(e.args[1]))
        if isinstance(e, sp.factorial):
            return math.factorial(int(ev(e.args[0])))
        if isinstance(e, sp.Piecewise):
            conds, vals = [], []
            for v, c in e.args:
                conds.append(np.asarray(True if c is sp.true else ev(c), dtype=bool))
                vals.append(np.asarray(ev(v)) + 0j)
            shape = np.broadcast(*conds, *vals).shape
            conds = [np.broadcast_to(c, shape) for c in conds]
            vals = [np.broadcast_to(v, shape) for v in vals]
            return np.select(conds, vals, default=np.nan)
        if isinstance(e, sp.StrictLessThan):
            return np.real(ev(e.args[0])) < np.real(ev(e.args[1]))
        if isinstance(e, sp.StrictGreaterThan):
            return np.real(ev(e.args[0])) > np.real(ev(e.args[1]))
        if isinstance(e, sp.LessThan):
            return np.real(ev(e.args[0])) <= np.real(ev(e.args[1]))
        if isinstance(e, sp.GreaterThan):
            return np.real(ev(e.args[0])) >= np.real(ev(e.args[1]))
        if isinstance(e, sp.And):
            r = True
            for a in e.args:
                r = np.logical_and(r, ev(a))
            return r
        if isinstance(e, sp.Or):
            r = False
            for a in e.args:
                r = np.logical_or(r, ev(a))
            return r
        if e is sp.true:
            return True
        if e is sp.false:
            return False
        if isinstance(e, WignerD):
            j, m, mp, a, b, c = e.args
            return wigner_D_num(ev(j), ev(m), ev(mp), ev(a), ev(b), ev(c))
        if isinstance(e, CG):
            return cg_num(*[ev(a) for a in e.args])
        if isinstance(e, sp.Tuple):
            return tuple(ev(a) for a in e.args)
        raise Unsupported(type(e))

    return ev(expr)


def scalar(x):
    a = np.asarray(x)
    return a.item() if a.size == 1 else a


def csqrt_scalar(x: complex) -> complex:
    if isinstance(x, complex) and x.imag != 0:
        return cmath.sqrt(x)
    xr = x.real if isinstance(x, complex) else x
    return 1j * math.sqrt(-xr) if xr < 0 else complex(math.sqrt(xr))


class ModelEvaluator:
    """Four-momenta -> kinematic variables (route A: ampform's printers) -> intensity, lambdified once."""

    def __init__(self, model, params: dict | None = None, fast: bool = True, cse: bool = True, expression=None) -> None:
        self.pvals = dict(model.parameter_defaults)
        if params:
            self.pvals.update(params)
        self.kin = {}
        for sym, expr in model.kinematic_variables.items():
            e = expr.xreplace(self.pvals).doit()
            fs = sorted(e.free_symbols, key=str)
            self.kin[sym] = (fs, sp.lambdify(fs, e, cse=cse))
        expr = model.expression if expression is None else expression
        needed = {s for s in expr.free_symbols if isinstance(s, sp.Symbol)}
        self.kin = {k: v for k, v in self.kin.items() if k in needed}
        e = expr.xreplace({k: v for k, v in self.pvals.items() if k in needed})
        if fast:
            e = replace_wigner(replace_wigner(e).doit())
            self.args = sorted(e.free_symbols, key=str)
            self.f = sp.lambdify(self.args, e, modules=_FAST_MODULES, cse=cse)
        else:
            e = e.doit()
            self.args = sorted(e.free_symbols, key=str)
            self.f = sp.lambdify(self.args, e, cse=cse)
        missing = [a for a in self.args if a not in self.kin]
        if missing:
            raise KeyError(f"expression symbols without kinematic definition or parameter value: {missing}")

    def kinematics(self, events: dict) -> dict:
        out = {}
        n = len(next(iter(events.values())))
        with np.errstate(all="ignore"):
            for sym, (fs, f) in self.kin.items():
                out[sym] = np.asarray(f(*[events[momentum_index(s)] for s in fs])) * np.ones(n)
        return out

    def __call__(self, events: dict):
        kv = self.kinematics(events)
        n = len(next(iter(events.values())))
        with np.errstate(all="ignore"):
            return np.asarray(self.f(*[kv[a] for a in self.args])) * np.ones(n), kv
