"""setup_cmd: compile the framework, bind the SUT, verify fixtures and numeric stand-ins."""
from __future__ import annotations

import compileall
import sys
from pathlib import Path


def main() -> int:
    root = Path(__file__).resolve().parent
    ok = compileall.compile_dir(str(root), quiet=1)
    from vmon import sut
    from vmon.numeval import selftest_wigner
    dev = selftest_wigner(4)
    from vmon.workloads import reactions
    n = reactions.verify_fixtures()
    # the exception classifier: raised inside ampform -> observation about the SUT; raised in the harness -> inconclusive
    from vmon.core import _raised_in_sut
    from ampform.sympy import PoolSum
    try:
        PoolSum(1, ("i",))  # malformed index tuple: raises inside ampform
        sut_where = None
    except Exception as exc:  # noqa: BLE001
        sut_where = _raised_in_sut(exc)
    try:
        {}["missing"]
    except Exception as exc:  # noqa: BLE001
        harness_where = _raised_in_sut(exc)
    if sut_where is None or harness_where is not None:
        print(f"exception classifier broken: sut={sut_where} harness={harness_where}")
        return 1
    print(f"vmon ready: ampform from {sut.git_state()['ampform_file']}, {n} reaction fixtures load, "
          f"numeric Wigner-D vs SymPy max dev {dev:.2e}")
    return 0 if ok and dev < 1e-12 and n > 0 else 1


if __name__ == "__main__":
    sys.exit(main())
