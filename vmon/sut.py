"""Bind the system under test: ampform imported from $VERIF_REPO/src (default /repo/src).

Importing this module first guarantees that every monitor judges the *current working
tree* of the repository, not an installed copy.
"""
from __future__ import annotations

import logging
import os
import subprocess
import sys
import warnings
from pathlib import Path

REPO = Path(os.environ.get("VERIF_REPO", "/repo")).resolve()
SRC = REPO / "src"
VERIF = Path(__file__).resolve().parent.parent

# hooks inside ampform (if any) are guarded by this variable
os.environ.setdefault("AMPFORM_VERIF", "1")

if str(SRC) not in sys.path[:1]:
    sys.path.insert(0, str(SRC))

warnings.filterwarnings("ignore")
logging.disable(logging.WARNING)

import ampform  # noqa: E402

_loaded_from = Path(ampform.__file__).resolve()
if SRC not in _loaded_from.parents:
    raise RuntimeError(f"ampform imported from {_loaded_from}, expected under {SRC}")


def git_state() -> dict:
    def run(*a):
        try:
            return subprocess.run(["git", "-C", str(REPO), *a], capture_output=True,
                                  text=True, timeout=20).stdout.strip()
        except Exception:  # noqa: BLE001
            return "?"
    return {
        "repo": str(REPO),
        "ampform_file": str(_loaded_from),
        "head": run("rev-parse", "HEAD"),
        "dirty": bool(run("status", "--porcelain", "--", "src")),
    }
