"""CLI: ./check C07 [--tier quick|thorough] [--seed N] [--replay FILE]."""
from __future__ import annotations

import argparse
import os
import sys


def main() -> int:
    ap = argparse.ArgumentParser()
    ap.add_argument("property")
    ap.add_argument("--tier", default=os.environ.get("VERIF_TIER", "quick"), choices=["quick", "thorough"])
    ap.add_argument("--seed", type=int, default=None)
    ap.add_argument("--replay", default=None)
    ap.add_argument("--jobs", type=int, default=None)
    a = ap.parse_args()
    seed = a.seed
    if seed is None:
        try:
            seed = int(os.environ.get("VERIF_SEED", "0"))
        except ValueError:
            seed = 0
    from vmon import runner
    pid = a.property.upper()
    if a.replay:
        return runner.replay(pid, a.replay)
    return runner.run_check(pid, a.tier, seed, a.jobs)


if __name__ == "__main__":
    sys.exit(main())
