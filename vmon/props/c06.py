"""C06 — formulate() is a pure function of (reaction, configuration).

History monitor: seeded random operation sequences (configure / assign dynamics / permute
topologies / toggle naming flags / formulate) over 1-3 builders sharing one reaction are
executed in fresh client processes under several PYTHONHASHSEED values, forwards, reversed
and interleaved; every formulate() logs (configuration key read from the builder's state,
per-attribute srepr digests incl. dictionary order).  The offline checker requires exactly
one digest per (reaction, configuration key) over all histories, processes and hash seeds.
A snapshot monitor on define_symbols / the DPD functools cache requires that objects
handed out to formulate() are not mutated.
"""
from __future__ import annotations

import json
import os
import shutil
import subprocess
import sys
import tempfile
from collections import defaultdict
from pathlib import Path

import numpy as np

ID = "C06"
LEVEL = "exploration"
RULE = ("case = one reaction with a family of histories: op sequences of length 4-30 over 1-3 builders (set/reset stable ids, "
        "scalar mass, couplings, alignment; naming flags; dynamics assignment by name/particle/decay/tuple; permute adapter "
        "topologies; formulate), each replayed in fresh processes with PYTHONHASHSEED in {unset, 0, 1, 42, ...}, plus the "
        "reversed and an interleaved order. distinct = (reaction, configuration key); non-trivial iff the key was reached by "
        ">= 2 different histories or hash seeds and some history visited a different configuration before it")
ASSUMPTIONS = ["the configuration key is read from the builder's public state (config, naming flags, dynamics map, registered topologies) before formulate()",
               "srepr digests of the five model attributes (+ key order) identify a model"]
FLOORS = {"quick": {"evaluations": 400, "distinct_nontrivial": 40, "hooks": ["history:formulate", "snapshot:define_symbols"]},
          "thorough": {"evaluations": 6000, "distinct_nontrivial": 400, "hooks": ["history:formulate", "snapshot:define_symbols"]}}
CASE_TIMEOUT = {"quick": 500, "thorough": 1800}
WALL_BUDGET = {"quick": 900, "thorough": 10800}
VERIF = Path(__file__).resolve().parents[2]
REACTIONS = ["jpsi_gamma_pi0_pi0__f0.hel", "jpsi_p_pbar_pi0__n1440.hel", "lambdac_p_km_pip__l1520_d1232_kst.hel", "jpsi_pi0_pip_pim__rho.can",
             "jpsi_gamma_pi0_pi0__omega.hel", "tau_nu_pim_pi0__rho.hel", "d0_km_pip_pi0__kst_rho.hel", "jpsi_k0_sigmap_pbar__sigma1750.can",
             "etap_gamma_pip_pim__rho.hel", "lambdac_p_km_pip__kst.can", "jpsi_kp_km_pip_pim__phi_f0.hel", "etac_lambda_lambdabar.hel"]


def plan(tier, seed):
    rng = np.random.default_rng([seed, 6])
    cases = []
    n_fam = 2 if tier == "quick" else 12
    for name in REACTIONS:
        for fam in range(n_fam):
            cases.append({"reaction": {"kind": "fixture", "name": name}, "family": fam, "seed": int(rng.integers(1 << 30)), "cost": 30.0})
    for k in range(6 if tier == "quick" else 80):
        cases.append({"reaction": {"kind": "synth", "seed": int(rng.integers(1 << 30)), "formalism": ["helicity", "canonical-helicity"][k % 2]},
                      "family": 0, "seed": int(rng.integers(1 << 30)), "cost": 25.0})
    return cases


def setup_worker(rec, ctx):
    pass


def gen_history(rng, reaction, relabel: bool, n_builders: int, length: int, allow_axis: bool):
    from vmon.workloads import configs as C
    finals = sorted(i + (1 if relabel else 0) for i in reaction.final_state) if relabel and set(reaction.final_state) != {1, 2, 3} else sorted(reaction.final_state)
    n = len(finals)
    res = C.resonances(reaction)
    aligns = ["none"]
    if n == 3:
        aligns += ["dpd1", "dpd2", "dpd3"]
    if n >= 3 and allow_axis:
        aligns += ["axisangle"]
    ops = []
    for _ in range(length):
        b = int(rng.integers(n_builders))
        r = rng.uniform()
        if r < 0.16:
            val = [None, [], finals, [int(x) for x in finals if rng.uniform() < 0.5] or [finals[0]]][int(rng.integers(4))]
            ops.append({"op": "set", "builder": b, "field": "stable", "value": val})
        elif r < 0.26:
            ops.append({"op": "set", "builder": b, "field": "scalar", "value": bool(rng.uniform() < 0.5)})
        elif r < 0.36:
            ops.append({"op": "set", "builder": b, "field": "couplings", "value": bool(rng.uniform() < 0.5)})
        elif r < 0.5:
            ops.append({"op": "set", "builder": b, "field": "align", "value": str(rng.choice(aligns))})
        elif r < 0.58:
            # the three flags are independent setters: set a random subset in a random order (incl. single toggles)
            flags = [str(f) for f in rng.permutation(["parent", "child", "ls"])][: int(rng.integers(1, 4))]
            pdef = {"parent": 0.4, "child": 0.6, "ls": 0.6}
            ops.append({"op": "naming", "builder": b, "order": [[f, bool(rng.uniform() < pdef[f])] for f in flags]})
        elif r < 0.7 and res:
            name = str(rng.choice(res))
            kinds = C.BUILDERS if C.l_available(reaction, name) else ["bw", "non_dynamic"]
            ops.append({"op": "assign", "builder": b, "target": name, "kind": str(rng.choice(kinds)), "select": str(rng.choice(["name", "particle", "decay", "tuple"]))})
        elif r < 0.73 and n <= 3:
            ops.append({"op": "permutate", "builder": b})
        else:
            ops.append({"op": "formulate", "builder": b})
    ops.append({"op": "formulate", "builder": 0})
    return ops


def run_child(work: Path, tag: str, spec: dict, hashseed: str, timeout=600):
    sp_ = work / f"spec-{tag}.json"
    out = work / f"out-{tag}.jsonl"
    sp_.write_text(json.dumps(spec))
    env = dict(os.environ)
    env.pop("PYTHONHASHSEED", None)
    if hashseed != "unset":
        env["PYTHONHASHSEED"] = hashseed
    r = subprocess.run([sys.executable, "-W", "ignore", "-m", "vmon.props.c06_child", str(sp_), str(out)], cwd=str(VERIF), env=env,
                       capture_output=True, text=True, timeout=timeout)
    events = []
    if out.exists():
        for line in out.read_text().splitlines():
            try:
                events.append(json.loads(line))
            except json.JSONDecodeError:
                pass
    return r.returncode, (r.stderr or "")[-600:], events


def run_case(case, rec, ctx):
    from vmon.props.c01 import make_reaction
    from vmon.workloads import configs as C
    from vmon.workloads import reactions as R
    rng = np.random.default_rng([case["seed"]])
    reaction, rname = make_reaction(case["reaction"])
    if reaction is None:
        rec.note("synthetic_reaction_not_constructible")
        return
    n = len(reaction.final_state)
    relabel = n == 3
    allow_axis = n >= 3 and C.axis_angle_terms(reaction) * len(reaction.transitions) ** 0.5 < 300 and n <= 3
    hashseeds = ["unset", "0", "1", "42"] if ctx["tier"] == "quick" else ["unset", "0", "1", "42", "12345", "4294967295", "7", "99"]
    work = Path(tempfile.mkdtemp(prefix="vmon-c06-"))
    try:
        base_spec = {"reaction": case["reaction"], "relabel": relabel}
        histories = []
        n_hist = 3 if ctx["tier"] == "quick" else 6
        for hnum in range(n_hist):
            nb = int(rng.integers(1, 4))
            ops = gen_history(rng, reaction, relabel, nb, int(rng.integers(4, 31)), allow_axis)
            histories.append((f"h{hnum}", nb, ops))
        # a walk over the naming flags alone: single-flag toggles in random order with a formulate() after each, so every
        # flag state is reached along several different paths (the name generator keeps derived state of its own)
        cur = {"parent": False, "child": True, "ls": True}
        walk = [{"op": "formulate", "builder": 0}]
        for _ in range(10 if ctx["tier"] == "quick" else 24):
            f = str(rng.choice(["parent", "child", "child", "ls"]))
            cur[f] = not cur[f]
            walk.append({"op": "naming", "builder": 0, "order": [[f, cur[f]]]})
            if rng.uniform() < 0.75:
                walk.append({"op": "formulate", "builder": 0})
        walk.append({"op": "formulate", "builder": 0})
        histories.append(("naming-walk", 1, walk))
        # a walk over the dynamics builders of one resonance (formulate after each assignment): every builder kind is reached after
        # several different predecessors - builders may keep memoised results
        res_ = C.resonances(reaction)
        if res_:
            tgt = str(rng.choice(res_))
            kinds_ = list(C.BUILDERS) if C.l_available(reaction, tgt) else ["bw", "non_dynamic"]
            seq = [str(k_) for k_ in rng.permutation(kinds_)] + ["bw"] + [str(k_) for k_ in rng.permutation(kinds_)][: 3] + ["bw"]
            dwalk = [{"op": "formulate", "builder": 0}]
            for kd in seq:
                dwalk.append({"op": "assign", "builder": 0, "target": tgt, "kind": kd, "select": "name"})
                dwalk.append({"op": "formulate", "builder": 0})
            histories.append(("dynamics-walk", 1, dwalk))
        # derived schedules: reversed order of the configuration blocks and an interleaving of two histories
        hname, nb, ops = histories[0]
        histories.append((hname + "-reversed", nb, list(reversed(ops)) + [{"op": "formulate", "builder": 0}]))
        if len(histories) >= 2:
            a, b = histories[0], histories[1]
            nb2 = max(a[1], b[1])
            inter = [op for pair in zip(a[2], b[2]) for op in pair] + a[2][len(b[2]):] + b[2][len(a[2]):]
            histories.append(("h0xh1-interleaved", nb2, inter))
        by_key: dict = defaultdict(list)
        n_form = 0
        failures = []
        runs = []
        for k, (hname, nb, ops) in enumerate(histories):
            seeds = [hashseeds[(k + j) % len(hashseeds)] for j in range(2 if ctx["tier"] == "quick" else 3)]
            for hs in seeds:
                runs.append((hname, nb, ops, hs))
        for hname, nb, ops, hs in runs:
            rc, err, events = run_child(work, f"{hname}-{hs}", {**base_spec, "n_builders": nb, "ops": ops}, hs)
            if rc != 0:
                failures.append((hname, hs, err[-300:]))
                continue
            prev_key = None
            for ev in events:
                if ev["type"] != "formulate":
                    continue
                rec.hit("history:formulate")
                n_form += 1
                feats = {"reaction": rname, "align": ev["config"]["align"].split("(")[0], "stable": ev["config"]["stable"] is not None,
                         "hashseed": {"unset": "unset", "0": "zero"}.get(hs, "other")}
                if "exception" in ev:
                    rec.check(False, "formulate_raises", f"{rname}: formulate() raised {ev['exception']} in history {hname} (PYTHONHASHSEED={hs}, config {ev['config']})",
                              {"history": hname, "ops": ops[: ev["op"] + 1][-12:]}, feats)
                    continue
                rec.hit("snapshot:define_symbols")
                rec.check(not ev["mutated_after_return"] and not ev["cache_changed"], "shared_state_mutated",
                          f"{rname}: formulate() mutated an object it received from define_symbols / a functools cache "
                          f"({ev['mutated_after_return']}, cache entries changed: {ev['cache_changed']}) in history {hname} (config {ev['config']})",
                          {"history": hname, "config": ev["config"]}, {**feats, "dpd": "DalitzPlotDecomposition" in ev["config"]["align"]})
                by_key[ev["key"]].append({"history": hname, "hashseed": hs, "op": ev["op"], "digests": ev["digests"], "config": ev["config"],
                                          "different_config_before": prev_key is not None and prev_key != ev["key"], "ops": ops})
                prev_key = ev["key"]
        if failures:
            rec.inconclusive_event("client process failed", failures[:2])
        for key, obs in by_key.items():
            ref = obs[0]
            distinct_runs = {(o["history"], o["hashseed"]) for o in obs}
            nontrivial = len(distinct_runs) >= 2 and any(o["different_config_before"] for o in obs)
            rec.case((rname, key), nontrivial, reaction=rname, align=ref["config"]["align"].split("(")[0], observations=min(len(obs), 9))
            for o in obs[1:]:
                diff = [a for a in ref["digests"] if ref["digests"][a] != o["digests"][a]]
                feats = {"reaction": rname, "align": ref["config"]["align"].split("(")[0], "dpd": "DalitzPlotDecomposition" in ref["config"]["align"],
                         "stable": ref["config"]["stable"] is not None, "same_hashseed": ref["hashseed"] == o["hashseed"], "same_history": ref["history"] == o["history"]}
                rec.check(not diff, "model_depends_on_history",
                          f"{rname}: two formulate() calls with equal configuration {ref['config']} returned different models (attributes {diff}): "
                          f"history {ref['history']} op {ref['op']} (PYTHONHASHSEED={ref['hashseed']}) vs history {o['history']} op {o['op']} (PYTHONHASHSEED={o['hashseed']})",
                          {"config": ref["config"], "a": {"history": ref["history"], "hashseed": ref["hashseed"], "ops": ref["ops"][: ref["op"] + 1][-15:]},
                           "b": {"history": o["history"], "hashseed": o["hashseed"], "ops": o["ops"][: o["op"] + 1][-15:]}, "attributes": diff}, feats)
        rec.sample(f"{case['reaction']['kind']}", {"reaction": R.reaction_summary(reaction), "histories": [(h_, nb_, len(o_)) for h_, nb_, o_ in histories],
                                                  "runs": [(h_, hs_) for h_, _, _, hs_ in runs], "formulate_calls": n_form, "distinct_configuration_keys": len(by_key),
                                                  "first_history": histories[0][2][:10]})
    finally:
        shutil.rmtree(work, ignore_errors=True)


META = {
    "technique": "history monitor over recorded (configure, formulate) operation sequences executed in fresh processes under several hash seeds, checked offline against the model 'digest = f(reaction, configuration)', plus a snapshot monitor on define_symbols and the DPD functools cache",
    "level_text": "For 12 fixtures (and synthetic reactions) families of random operation sequences (length 4-30, 1-3 builders sharing the reaction; stable ids, scalar mass, couplings, alignment incl. all DPD reference subsystems, naming flags, dynamics by name/particle/decay/tuple, topology permutation) are replayed in fresh interpreters with PYTHONHASHSEED unset/0/1/42 (thorough: 8 values), also reversed and interleaved; every formulate() is keyed by the configuration read from the builder's state and all observations of one key must have identical per-attribute srepr digests and key order; objects returned by define_symbols and cached DPD results must be unchanged when formulate() returns. Every case also contains a walk over the naming flags (single toggles, formulate after each) and a walk over all dynamics builder kinds of one resonance (incl. the flag combinations without convenience function).",
    "level_note": "A configuration is what the builder's public state says (config, naming flags, dynamics map, registered topologies); histories are bounded to 30 operations and 3 builders.",
}
