"""C20 — phase-space boundary functions classify three-body kinematics correctly."""
from __future__ import annotations

import numpy as np

ID = "C20"
LEVEL = "exploration"
RULE = ("case = (check, mass-configuration class, outside value, route); mass configurations m0 > m1+m2+m3 >= 0 "
        "over four decades incl. massless and equal masses; events from a sequential phase-space generator, "
        "grid + random points in the bounding box; distinct = that tuple + decade of Q-value; non-trivial iff "
        "the box contains both inside and outside points (classification) or the event sample is not degenerate")
ASSUMPTIONS = ["PDG Dalitz-plot limits from the (23)-frame energies as reference",
               "points closer than 1e-9 (relative to m0^2) to a limit are not judged"]
FLOORS = {"quick": {"evaluations": 400, "distinct_nontrivial": 20, "hooks": ["lambdify:is_within_phasespace", "lambdify:Kibble", "lambdify:numbers_before_doit", "exact:Kallen", "construct:keyword_order", "exact:boundary_events"]},
          "thorough": {"evaluations": 4000, "distinct_nontrivial": 40, "hooks": ["lambdify:is_within_phasespace", "lambdify:Kibble", "lambdify:numbers_before_doit", "exact:Kallen", "construct:keyword_order", "exact:boundary_events"]}}
CASE_TIMEOUT = {"quick": 180, "thorough": 600}
EPS = np.finfo(float).eps
MASS_CLASSES = ["generic", "one_massless", "two_massless", "all_massless", "equal", "hierarchical", "near_threshold"]
OUTSIDE = ["nan", "0", "-1", "symbol"]


def plan(tier, seed):
    reps = 2 if tier == "quick" else 150
    cases = []
    for rep in range(reps):
        for mc in MASS_CLASSES:
            cases.append({"check": "events", "masses": mc, "rep": rep, "cost": 0.5})
            for ov in OUTSIDE:
                cases.append({"check": "classify", "masses": mc, "outside": ov, "rep": rep, "cost": 0.6})
            cases.append({"check": "kallen", "masses": mc, "rep": rep, "cost": 0.2})
    return cases


def setup_worker(rec, ctx):
    import sympy as sp
    from ampform.kinematics import phasespace as P

    s1, s2, s3 = sp.symbols("sigma1:4", real=True)
    m0, m1, m2, m3 = sp.symbols("m0:4", nonnegative=True)
    x, y, z = sp.symbols("x y z", real=True)
    out = sp.Symbol("out", real=True)
    ctx["sym"] = dict(s1=s1, s2=s2, s3=s3, m0=m0, m1=m1, m2=m2, m3=m3, x=x, y=y, z=z, out=out)
    F = ctx["F"] = {}
    E = ctx["E"] = {}
    E["Kibble"] = P.Kibble(s1, s2, s3, m0, m1, m2, m3)
    F["Kibble"] = sp.lambdify([s1, s2, s3, m0, m1, m2, m3], E["Kibble"].doit())
    rec.hit("lambdify:Kibble")
    E["Kallen"] = P.Kallen(x, y, z)
    F["Kallen"] = sp.lambdify([x, y, z], E["Kallen"].doit())
    E["s3"] = P.compute_third_mandelstam(s1, s2, m0, m1, m2, m3)
    F["s3"] = sp.lambdify([s1, s2, m0, m1, m2, m3], E["s3"])
    for ov, val in (("nan", sp.nan), ("0", 0), ("-1", -1), ("symbol", out)):
        e = P.is_within_phasespace(s1, s2, m0, m1, m2, m3, outside_value=val)
        E["ind", ov] = e
        args = [s1, s2, m0, m1, m2, m3] + ([out] if ov == "symbol" else [])
        F["ind", ov] = sp.lambdify(args, e.doit())
        rec.hit("lambdify:is_within_phasespace")
    E["ind", "default"] = P.is_within_phasespace(s1, s2, m0, m1, m2, m3)
    F["ind", "default"] = sp.lambdify([s1, s2, m0, m1, m2, m3], E["ind", "default"].doit())


def masses_for(mc, rng):
    scale = 10 ** rng.uniform(-2, 2)
    if mc == "generic":
        m = rng.uniform(0.05, 1.0, 3)
    elif mc == "one_massless":
        m = rng.uniform(0.05, 1.0, 3); m[rng.integers(3)] = 0.0
    elif mc == "two_massless":
        m = np.zeros(3); m[rng.integers(3)] = rng.uniform(0.05, 1.0)
    elif mc == "all_massless":
        m = np.zeros(3)
    elif mc == "equal":
        m = np.full(3, rng.uniform(0.05, 1.0))
    elif mc == "hierarchical":
        m = 10 ** rng.uniform(-4, 0, 3)
    else:
        m = rng.uniform(0.05, 1.0, 3)
    q = rng.uniform(0.3, 3.0) if mc != "near_threshold" else 10 ** rng.uniform(-4, -2)
    if mc == "all_massless":
        q = 1.0
    m0 = m.sum() + q
    return float(m0 * scale), [float(v * scale) for v in m]


def dalitz_limits(s1, m0, m1, m2, m3):
    """PDG kinematics review: range of sigma2 = m13^2 at fixed sigma1 = m23^2."""
    r = np.sqrt(s1)
    e1 = (m0 ** 2 - s1 - m1 ** 2) / (2 * r)
    e3 = (s1 - m2 ** 2 + m3 ** 2) / (2 * r)
    p1 = np.sqrt(np.maximum(e1 ** 2 - m1 ** 2, 0))
    p3 = np.sqrt(np.maximum(e3 ** 2 - m3 ** 2, 0))
    return (e1 + e3) ** 2 - (p1 + p3) ** 2, (e1 + e3) ** 2 - (p1 - p3) ** 2


def run_case(case, rec, ctx):
    from vmon.numeval import neval
    from vmon.workloads.events import gen_events, mass2

    rng = np.random.default_rng([ctx["seed"], 20, case["idx"]])
    F, E, S = ctx["F"], ctx["E"], ctx["sym"]
    mc = case["masses"]
    M0, (M1, M2, M3) = masses_for(mc, rng)
    feats = {"check": case["check"], "masses": mc}
    w0 = {"m0": M0, "m1": M1, "m2": M2, "m3": M3}
    qdec = int(np.floor(np.log10((M0 - M1 - M2 - M3) / M0)))
    if case["check"] == "events":
        n = 2000 if ctx["tier"] == "quick" else 20000
        strata = ["flat", "threshold", "boosted", "collinear"]
        for st in strata:
            ev = gen_events(M0, [M1, M2, M3], n // len(strata), rng, ids=[1, 2, 3], stratum=st)
            s1 = mass2(ev[2] + ev[3]); s2 = mass2(ev[1] + ev[3]); s3 = mass2(ev[1] + ev[2])
            rec.case(("events", mc, st, qdec), True, mass_class=mc, event_stratum=st, q_decade=qdec)
            rec.sample(f"events:{mc}", {**w0, "sigma1": s1[0], "sigma2": s2[0], "stratum": st})
            with np.errstate(all="ignore"):
                got3 = np.asarray(F["s3"](s1, s2, M0, M1, M2, M3))
                kib = np.asarray(F["Kibble"](s1, s2, got3, M0, M1, M2, M3), dtype=float)
                ind = np.asarray(F["ind", "0"](s1, s2, M0, M1, M2, M3), dtype=float)
                kib_b = np.asarray(neval(E["Kibble"], {S["s1"]: s1, S["s2"]: s2, S["s3"]: s3, S["m0"]: M0, S["m1"]: M1, S["m2"]: M2, S["m3"]: M3})).real
            ok = np.abs(got3 - s3) <= 1024 * EPS * M0 ** 2  # rounding of the reference four-vector sums
            i = int(np.argmin(ok))
            rec.check(bool(ok.all()), "third_mandelstam", f"compute_third_mandelstam != m12^2: {got3[i]} vs {s3[i]}", {**w0, "sigma1": s1[i], "sigma2": s2[i]}, feats)
            # Kibble is a degree-8 polynomial in masses: absolute rounding ~ eps * m0^8
            tol = 1e5 * EPS * M0 ** 8
            ok = kib <= tol
            i = int(np.argmin(ok))
            rec.check(bool(ok.all()), "kibble_positive", f"Kibble > 0 for a physical event: {kib[i]:.3g} (tol {tol:.3g})", {**w0, "sigma1": s1[i], "sigma2": s2[i], "kibble": kib[i]}, feats)
            ok = np.abs(kib - kib_b) <= tol
            rec.check(bool(ok.all()), "routes_disagree", "Kibble: lambdified doit() != unfolded evaluate()", w0, feats)
            # indicator: judge events that are not within rounding of the boundary
            lo, hi = dalitz_limits(s1, M0, M1, M2, M3)
            interior = (s2 - lo > 1e-9 * M0 ** 2) & (hi - s2 > 1e-9 * M0 ** 2) & (kib < -tol)
            rec.stratum("events_interior_judged", int(interior.sum()))
            ok = (ind == 1) | ~interior
            i = int(np.argmin(ok))
            rec.check(bool(ok.all()), "indicator_event", f"is_within_phasespace != 1 for a physical interior event (got {ind[i]})", {**w0, "sigma1": s1[i], "sigma2": s2[i]}, feats)
        return
    if case["check"] == "classify":
        ov = case["outside"]
        g = 60 if ctx["tier"] == "quick" else 200
        lo1, hi1 = (M2 + M3) ** 2, (M0 - M1) ** 2
        lo2, hi2 = (M1 + M3) ** 2, (M0 - M2) ** 2
        a = np.linspace(lo1, hi1, g + 2)[1:-1]
        b = np.linspace(lo2, hi2, g + 2)[1:-1]
        A, B = np.meshgrid(a, b)
        s1 = np.concatenate([A.ravel(), rng.uniform(lo1, hi1, g * g // 2)])
        s2 = np.concatenate([B.ravel(), rng.uniform(lo2, hi2, g * g // 2)])
        # points hugging the boundary from both sides
        sb = rng.uniform(lo1, hi1, 4 * g)
        l, h = dalitz_limits(sb, M0, M1, M2, M3)
        d = 10 ** rng.uniform(-8, -2, 4 * g) * M0 ** 2 * rng.choice([-1, 1], 4 * g)
        edge = np.where(rng.uniform(size=4 * g) < 0.5, l, h)
        s1 = np.concatenate([s1, sb]); s2 = np.concatenate([s2, edge + d])
        inbox = (s2 > lo2) & (s2 < hi2)
        s1, s2 = s1[inbox], s2[inbox]
        lo, hi = dalitz_limits(s1, M0, M1, M2, M3)
        ref_in = (s2 > lo) & (s2 < hi)
        near = (np.abs(s2 - lo) < 1e-9 * M0 ** 2) | (np.abs(s2 - hi) < 1e-9 * M0 ** 2)
        outv = 7.25
        args = [s1, s2, M0, M1, M2, M3] + ([outv] if ov == "symbol" else [])
        with np.errstate(all="ignore"):
            got = np.asarray(F["ind", ov](*args), dtype=float) * np.ones(len(s1))
        exp_out = {"nan": np.nan, "0": 0.0, "-1": -1.0, "symbol": outv}[ov]
        frac = float(ref_in.mean())
        rec.case(("classify", mc, ov, qdec), 0.02 < frac < 0.98, mass_class=mc, outside=ov, q_decade=qdec)
        rec.sample(f"classify:{mc}:{ov}", {**w0, "points": len(s1), "inside_fraction": frac, "near_boundary_skipped": int(near.sum())})
        rec.stratum("classified_points", "inside", int((ref_in & ~near).sum()))
        rec.stratum("classified_points", "outside", int((~ref_in & ~near).sum()))
        ok_in = (got == 1) | ~ref_in | near
        i = int(np.argmin(ok_in))
        rec.check(bool(ok_in.all()), "inside_misclassified", f"point inside the Dalitz limits classified outside: sigma1={s1[i]}, sigma2={s2[i]} in ({lo[i]},{hi[i]}) -> {got[i]}",
                  {**w0, "sigma1": s1[i], "sigma2": s2[i], "lo": lo[i], "hi": hi[i], "got": got[i]}, feats)
        is_out = np.isnan(got) if ov == "nan" else (got == exp_out)
        ok_out = is_out | ref_in | near
        i = int(np.argmin(ok_out))
        rec.check(bool(ok_out.all()), "outside_misclassified", f"point outside the Dalitz limits does not return the outside value {exp_out}: sigma1={s1[i]}, sigma2={s2[i]} not in ({lo[i]},{hi[i]}) -> {got[i]}",
                  {**w0, "sigma1": s1[i], "sigma2": s2[i], "lo": lo[i], "hi": hi[i], "got": got[i]}, {**feats, "outside": ov})
        # route C: the masses are inserted as exact numbers *before* unfolding (as the library's own test and many
        # users do); an exactly massless particle is then an exact SymPy zero inside evaluate()
        import sympy as sp
        from ampform.kinematics import phasespace as P
        R = [sp.Rational(v) for v in (M0, M1, M2, M3)]   # exact binary fractions: float(R[i]) == M_i
        val = {"nan": sp.nan, "0": 0, "-1": -1, "symbol": S["out"]}[ov]
        try:
            e_num = P.is_within_phasespace(S["s1"], S["s2"], *R, outside_value=val).doit()
            f_num = sp.lambdify([S["s1"], S["s2"]] + ([S["out"]] if ov == "symbol" else []), e_num)
            rec.hit("lambdify:numbers_before_doit")
            with np.errstate(all="ignore"):
                got_c = np.asarray(f_num(*([s1, s2] + ([outv] if ov == "symbol" else []))), dtype=float) * np.ones(len(s1))
            same = (got_c == got) | (np.isnan(got_c) & np.isnan(got)) | near
            # the two routes may round differently: only points within 1e-9 of a limit may differ (excluded above)
            i = int(np.argmin(same))
            rec.check(bool(same.all()), "numbers_first_route", f"is_within_phasespace with exact masses inserted before doit() classifies sigma1={s1[i]}, sigma2={s2[i]} as {got_c[i]}, symbolic route {got[i]} (limits {lo[i]},{hi[i]})",
                      {**w0, "sigma1": s1[i], "sigma2": s2[i], "got_numbers_first": got_c[i], "got_symbolic": got[i]}, {**feats, "route": "numbers_before_doit"})
        except Exception as exc:  # noqa: BLE001
            rec.check(False, "numbers_first_route", f"is_within_phasespace with exact masses before doit() raised {type(exc).__name__}: {exc}", w0, {**feats, "route": "numbers_before_doit"})
        if ov == "nan":
            with np.errstate(all="ignore"):
                d = np.asarray(F["ind", "default"](s1, s2, M0, M1, M2, M3), dtype=float) * np.ones(len(s1))
            rec.check(bool(np.array_equal(np.isnan(d), np.isnan(got))), "default_outside", "default outside_value is not NaN", w0, feats)
        return
    # Kallen
    n = 500
    sc = M0 ** 2
    x = rng.uniform(-1, 4, n) * sc; y = rng.uniform(0, 2, n) * sc; z = rng.uniform(0, 2, n) * sc
    if mc in ("two_massless", "all_massless"):
        z[: n // 2] = 0.0
    rec.case(("kallen", mc, qdec), True, mass_class=mc)
    rec.sample("kallen", {"x": x[0], "y": y[0], "z": z[0]})
    k = np.asarray(F["Kallen"](x, y, z), dtype=float)
    tol = 64 * EPS * (np.abs(x) + y + z) ** 2
    import itertools
    for perm in itertools.permutations([x, y, z]):
        ok = np.abs(np.asarray(F["Kallen"](*perm), dtype=float) - k) <= tol
        rec.check(bool(ok.all()), "kallen_asymmetric", "Kallen is not totally symmetric", {"x": x[0], "y": y[0], "z": z[0]}, feats)
    fact = (x - (np.sqrt(y) + np.sqrt(z)) ** 2) * (x - (np.sqrt(y) - np.sqrt(z)) ** 2)
    ok = np.abs(fact - k) <= tol
    i = int(np.argmin(ok))
    rec.check(bool(ok.all()), "kallen_factorisation", f"Kallen != (x-(sqrt y+sqrt z)^2)(x-(sqrt y-sqrt z)^2): {k[i]} vs {fact[i]}", {"x": x[i], "y": y[i], "z": z[i]}, feats)
    from vmon.numeval import neval as _ne
    kb = np.asarray(_ne(E["Kallen"], {S["x"]: x, S["y"]: y, S["z"]: z})).real
    rec.check(bool((np.abs(kb - k) <= tol).all()), "routes_disagree", "Kallen: lambdified != unfolded evaluate()", None, feats)


    # calling conventions: the same arguments by keyword, in any order, and partly positional, denote the same function
    kib_fields = ["sigma1", "sigma2", "sigma3", "m0", "m1", "m2", "m3"]
    kal_fields = ["x", "y", "z"]
    from ampform.kinematics import phasespace as P2
    for cls_, fields_, symv in ((P2.Kibble, kib_fields, [S["s1"], S["s2"], S["s3"], S["m0"], S["m1"], S["m2"], S["m3"]]),
                                (P2.Kallen, kal_fields, [S["x"], S["y"], S["z"]])):
        ref_obj = cls_(*symv)
        for trial in range(4):
            order = [int(i_) for i_ in rng.permutation(len(fields_))]
            n_pos = [0, 0, int(rng.integers(1, len(fields_))), len(fields_) - 1][trial]
            kw = {fields_[i_]: symv[i_] for i_ in order if i_ >= n_pos}
            try:
                obj = cls_(*symv[:n_pos], **kw)
                ok_ = obj == ref_obj and obj.args == ref_obj.args
                what_ = f"{cls_.__name__}: {n_pos} positional + keywords in the order {list(kw)} gives args {obj.args}, expected {ref_obj.args}"
            except Exception as exc:  # noqa: BLE001
                ok_, what_ = False, f"{cls_.__name__}: keyword construction in the order {list(kw)} raised {exc!r}"
            rec.check(bool(ok_), "keyword_construction", what_, None, {**feats, "route": "keyword_order"})
    rec.hit("construct:keyword_order")
    # exact-number route: Kallen unfolded with exact arguments, zeros in every slot
    import sympy as sp
    from ampform.kinematics import phasespace as P
    vals = [sp.Integer(0), sp.Rational(1, 4), sp.Rational(9, 4), sp.Integer(3), sp.Rational(float(x[0])), sp.Rational(float(y[0]))]
    for X in vals:
        for Y in vals[:4]:
            for Z in vals[:4]:
                got_e = P.Kallen(X, Y, Z).doit()
                want = X ** 2 + Y ** 2 + Z ** 2 - 2 * X * Y - 2 * Y * Z - 2 * Z * X
                rec.check(bool(sp.simplify(got_e - want) == 0), "kallen_exact", f"Kallen({X},{Y},{Z}).doit() = {got_e}, expected {want}",
                          {"x": str(X), "y": str(Y), "z": str(Z)}, {**feats, "route": "numbers_before_doit", "zero_argument": 0 in (X, Y, Z)})
    rec.hit("exact:Kallen")
    # exact boundary events (two decay products at relative rest): in exact rational arithmetic the Kibble function is exactly 0 there;
    # such an event is physical, so the indicator must be 1 (closed region), for every outside value
    def Rq(v):
        return sp.Rational(int(round(v * 8)), 8) if v else sp.Integer(0)
    M = [Rq(M1 / M0 * 4 + 0.125), Rq(M2 / M0 * 4 + 0.125), Rq(M3 / M0 * 4 + 0.125)] if mc not in ("all_massless",) else [sp.Integer(0)] * 3
    if mc == "one_massless":
        M[int(rng.integers(3))] = sp.Integer(0)
    if mc == "equal":
        M = [M[0]] * 3
    m0e = sum(M) + sp.Rational(int(rng.integers(3, 40)), 8)
    m1e, m2e, m3e = M
    for pair in ("23", "13", "12"):
        a_, b_, c_ = {"23": (m2e, m3e, m1e), "13": (m1e, m3e, m2e), "12": (m1e, m2e, m3e)}[pair]
        if a_ + b_ == 0:
            continue
        s_pair = (a_ + b_) ** 2
        # the third particle c against the pair at relative rest: (p_c + p_b)^2 = m_c^2 + m_b^2 + (m_b/(m_a+m_b)) (m0^2 - m_c^2 - s_pair)
        def other(mb):
            return c_ ** 2 + mb ** 2 + mb / (a_ + b_) * (m0e ** 2 - c_ ** 2 - s_pair)
        s_cb, s_ca = other(b_), other(a_)
        sig = {"23": {"s1": s_pair, "s2": s_cb, "s3": s_ca}, "13": {"s2": s_pair, "s1": s_cb, "s3": s_ca}, "12": {"s3": s_pair, "s1": s_cb, "s2": s_ca}}[pair]
        kib = sp.nsimplify(P.Kibble(sig["s1"], sig["s2"], sig["s3"], m0e, m1e, m2e, m3e).doit())
        closes = sp.simplify(sig["s1"] + sig["s2"] + sig["s3"] - (m0e ** 2 + m1e ** 2 + m2e ** 2 + m3e ** 2)) == 0
        witx = {"m0": str(m0e), "m1": str(m1e), "m2": str(m2e), "m3": str(m3e), "sigma1": str(sig["s1"]), "sigma2": str(sig["s2"]), "pair_at_rest": pair}
        rec.check(bool(closes and kib == 0), "exact_boundary", f"Kibble of an exact boundary event (particles {pair} at relative rest) = {kib}, expected exactly 0", witx,
                  {**feats, "route": "exact_boundary"})
        for ov_, val_ in (("0", 0), ("-1", -1), ("nan", sp.nan)):
            ind = P.is_within_phasespace(sig["s1"], sig["s2"], m0e, m1e, m2e, m3e, outside_value=val_).doit()
            rec.check(ind == 1, "exact_boundary", f"indicator of an exact boundary event (particles {pair} at relative rest, Kibble = 0, outside value {ov_}) = {ind}, expected 1",
                      witx, {**feats, "route": "exact_boundary", "outside": ov_})
    rec.hit("exact:boundary_events")


META = {
    "technique": "runtime contracts on Kibble/Kallen/is_within_phasespace/compute_third_mandelstam (lambdified + interpreted) against PDG Dalitz limits on generated events and box grids",
    "level_text": "(Two routes: symbolic doit() then numbers, and exact numbers - incl. exact zeros for massless particles - inserted before doit().) The real functions are evaluated on generated three-body events (flat, threshold, boosted, collinear strata) and on grids plus random and boundary-hugging points of the kinematic bounding box for seven mass-configuration classes (incl. massless, equal, hierarchical, near-threshold) and all four outside values; every point away from the boundary by more than 1e-9 m0^2 is judged against the PDG limits. Sampling evidence, no proof. Also: keyword construction of Kibble/Kallen in any order, and exact rational boundary events (Kibble exactly 0, indicator must be 1).",
    "level_note": "PDG limit formula and numpy float64 trusted; boundary band of relative width 1e-9 not judged; crossed-channel regions out of scope as in the statement.",
}
