"""Client process for C16 histories.

usage: python -m vmon.props.c16_child SPEC.json
SPEC = {"dir":..., "log":..., "proc": id, "ops": [expr ids], "fault": {...} | null, "start_at": wall time | null}
Every call event is logged *before* invoking perform_cached_doit; the return (digest or
exception) after it.  Faults are injected at the file-system boundary of the process
(builtins.open / io.open / os.replace / os.rename), not inside ampform.
"""
from __future__ import annotations

import builtins
import io
import json
import os
import signal
import sys
import time


def main() -> int:
    spec = json.loads(open(sys.argv[1]).read())
    log = open(spec["log"], "a", buffering=1)
    proc = spec["proc"]
    cache_dir = os.path.realpath(spec["dir"])

    def emit(**ev):
        ev.update(proc=proc, t=time.monotonic(), hashseed=os.environ.get("PYTHONHASHSEED"))
        log.write(json.dumps(ev) + "\n")
        log.flush()
        os.fsync(log.fileno())

    from vmon import sut  # noqa: F401
    import sympy as sp  # noqa: F401
    from ampform.sympy import perform_cached_doit
    from vmon.workloads.cache_exprs import digest, registry

    reg = registry()
    fault = spec.get("fault") or {}
    real_open = builtins.open
    state = {"written": 0}

    def die(where):
        emit(type="killed", where=where)
        os.kill(os.getpid(), signal.SIGKILL)

    class KillingFile:
        def __init__(self, f):
            self._f = f

        def write(self, data):
            budget = fault.get("kill_at_byte")
            if budget is not None:
                room = budget - state["written"]
                if room <= len(data):
                    self._f.write(bytes(data)[:max(room, 0)])
                    self._f.flush()
                    os.fsync(self._f.fileno())
                    state["written"] += max(room, 0)
                    die(f"byte:{budget}")
            n = self._f.write(data)
            state["written"] += len(data)
            return n

        def __enter__(self):
            return self

        def __exit__(self, *a):
            if fault.get("kill") == "after_write_before_close":
                self._f.flush()
                die("after_write_before_close")
            return self._f.__exit__(*a)

        def __getattr__(self, name):
            return getattr(self._f, name)

    def in_cache(path) -> bool:
        try:
            return os.path.realpath(os.fspath(path)).startswith(cache_dir)
        except TypeError:
            return False

    def my_open(file, mode="r", *a, **k):
        if in_cache(file):
            writing = any(c in mode for c in "wax+")
            emit(type="fs", op="open", mode=mode, file=os.path.basename(os.fspath(file)))
            if writing:
                if fault.get("kill") == "before_open":
                    die("before_open")
                f = real_open(file, mode, *a, **k)
                if fault.get("kill") == "after_open":
                    die("after_open")
                if fault.get("delay_after_open"):
                    time.sleep(fault["delay_after_open"])
                return KillingFile(f) if fault else f
            f = real_open(file, mode, *a, **k)
            if fault.get("delay_after_read_open"):
                time.sleep(fault["delay_after_read_open"])
            return f
        return real_open(file, mode, *a, **k)

    builtins.open = my_open
    io.open = my_open
    for name in ("replace", "rename"):
        real = getattr(os, name)

        def wrapped(src, dst, *a, _real=real, _name=name, **k):
            if in_cache(dst):
                emit(type="fs", op=_name, file=os.path.basename(os.fspath(dst)))
                if fault.get("kill") == "before_replace":
                    die("before_replace")
                r = _real(src, dst, *a, **k)
                if fault.get("kill") == "after_replace":
                    die("after_replace")
                return r
            return _real(src, dst, *a, **k)
        setattr(os, name, wrapped)

    if spec.get("start_at"):
        while time.time() < spec["start_at"]:
            pass
    for i, eid in enumerate(spec["ops"]):
        emit(type="call", op=i, expr=eid)
        try:
            res = perform_cached_doit(reg[eid], spec["dir"])
            emit(type="return", op=i, expr=eid, digest=digest(res))
        except BaseException as exc:  # noqa: BLE001
            emit(type="return", op=i, expr=eid, exception=f"{type(exc).__name__}: {exc}"[:300])
    return 0


if __name__ == "__main__":
    sys.exit(main())
