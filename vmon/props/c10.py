"""C10 — production vectors solve the K-matrix equation and honour their arguments."""
from __future__ import annotations

import itertools

import numpy as np

ID = "C10"
LEVEL = "exploration"
RULE = ("case = (class, n_channels, n_poles, L, radius, phase-space factor, return_f_hat, parameter-set id); the "
        "post-condition on (Non)RelativisticPVector.formulate scans the result structurally (phase-space classes, "
        "phsp_factor attributes, L and radius arguments) and evaluates the residual (1 - iK)F - P with K, P from "
        "the library's own parametrization methods called with the caller's arguments; distinct = that tuple "
        "without the parameter-set id; non-trivial iff n_channels*n_poles >= 2 or a non-default argument is passed")
ASSUMPTIONS = ["numpy linear algebra as reference", "K and P are the library's own parametrization methods"]
FLOORS = {"quick": {"evaluations": 300, "distinct_nontrivial": 25,
                    "hooks": ["RelativisticPVector.formulate", "NonRelativisticPVector.formulate"]},
          "thorough": {"evaluations": 2000, "distinct_nontrivial": 60,
                       "hooks": ["RelativisticPVector.formulate", "NonRelativisticPVector.formulate"]}}
CASE_TIMEOUT = {"quick": 300, "thorough": 1500}
WALL_BUDGET = {"quick": 900, "thorough": 7200}
PHSP = ["PhaseSpaceFactor", "PhaseSpaceFactorAbs", "PhaseSpaceFactorComplex", "PhaseSpaceFactorSWave", "EqualMassPhaseSpaceFactor"]


def plan(tier, seed):
    cases = []
    if tier == "quick":
        grid = [(1, 1), (1, 2), (2, 1), (2, 2), (1, 3), (2, 3)]
        Ls, reps = (0, 1, 2), 1
    else:
        grid = [(c, p) for c in (1, 2) for p in (1, 2, 3)] + [(3, 1), (3, 2)]
        Ls, reps = (0, 1, 2, 3, 4), 10
    for (c, p), rep in itertools.product(grid, range(reps)):
        cases.append({"cls": "NonRelativisticPVector", "n_ch": c, "n_poles": p, "rep": rep, "cost": 1 + (30 if c == 3 else 0)})
        if c == 3:
            continue   # RelativisticPVector.formulate(3, ...) does not return within 50 minutes (symbolic (1 - i K rho)^-1 P): not explorable
        for k, (ph, L) in enumerate(itertools.product(PHSP, Ls)):
            if tier == "quick" and (k + c + p) % 2:
                continue
            cases.append({"cls": "RelativisticPVector", "n_ch": c, "n_poles": p, "L": L, "phsp": ph,
                          "radius": [1, 2.5, "symbol"][(k + rep) % 3], "f_hat": bool((k + c) % 2), "rep": rep,
                          "cost": 2 + (40 if c == 3 else 0)})
    # the documented reduction holds where sqrt(rho)^* sqrt(rho) = rho, i.e. for phase-space factors that are real
    # above threshold (for the Chew-Mandelstam variants K-hat rho = K rho/|rho| and no reduction is documented)
    for ph, L in itertools.product(PHSP[:3], (0, 1, 2, 3)):
        cases.append({"cls": "reduction", "phsp": ph, "L": L, "cost": 2})
    cases.append({"cls": "reduction_nonrel", "cost": 1})
    # phase-space factors given as plain callables (the protocol is 'callable (s, m_a, m_b) -> Expr'): look-alike lambdas /
    # closures used one after the other in one process
    for c in (1, 2):
        cases.append({"cls": "callable_phsp", "n_ch": c, "n_poles": 2, "cost": 8.0})
    # call histories inside one process (formulate() caches its matrix templates per n_channels): every call of a
    # sequence with the same n_channels and varying n_poles / arguments is judged by the same post-conditions
    seqs = [[1, 2, 1], [2, 1, 3], [3, 1], [1, 3, 2, 1]]
    for c in (1, 2):
        for k, seq in enumerate(seqs if tier != "quick" else seqs[:3]):
            cases.append({"cls": "history", "klass": "NonRelativisticPVector", "n_ch": c, "seq": seq, "cost": 2 * len(seq)})
            cases.append({"cls": "history", "klass": "RelativisticPVector", "n_ch": c, "seq": seq, "k": k, "cost": 4 * len(seq)})
    return cases


def setup_worker(rec, ctx):
    from ampform.dynamics import kmatrix as K
    from vmon.core import attach
    ctx["K"] = K

    def ensure_rel(old, result, cls, n_channels, n_poles, parametrize=True, **kw):
        if parametrize:
            _judge_rel(rec, ctx, result, n_channels, n_poles, kw)

    def ensure_nonrel(old, result, cls, n_channels, n_poles, parametrize=True, **kw):
        if parametrize:
            _judge_nonrel(rec, ctx, result, n_channels, n_poles)
    attach(K.RelativisticPVector, "formulate", hook="RelativisticPVector.formulate", rec=rec, ensure=ensure_rel)
    attach(K.NonRelativisticPVector, "formulate", hook="NonRelativisticPVector.formulate", rec=rec, ensure=ensure_nonrel)


def _mat(fn, n, m=None):
    import sympy as sp
    if m is None:
        return sp.Matrix([[fn(i)] for i in range(n)])
    return sp.Matrix([[fn(i, j) for j in range(m)] for i in range(n)])


def _judge_nonrel(rec, ctx, F, n_ch, n_poles):
    from vmon.refmodel.kmatrix import eval_matrix, random_env, symbols
    K = ctx["K"]
    S = symbols()
    rng = ctx["case_rng"]
    n_s = 12
    env, desc = random_env(rng, n_ch, n_poles, n_s)
    feats = {"cls": "NonRelativisticPVector", "n_ch": n_ch, "n_poles": n_poles, "history_position": ctx.get("history_position")}
    Km = _mat(lambda i, j: K.NonRelativisticKMatrix.parametrization(i=i, j=j, s=S["s"], pole_position=S["m"], pole_width=S["Gamma"],
                                                                   residue_constant=S["gamma"], n_poles=n_poles, pole_id=S["R"]), n_ch, n_ch)
    Pv = _mat(lambda i: K.NonRelativisticPVector.parametrization(i=i, s=S["s"], pole_position=S["m"], pole_width=S["Gamma"],
                                                                residue_constant=S["gamma"], beta_constant=S["beta"], n_poles=n_poles, pole_id=S["R"]), n_ch)
    Fn = eval_matrix(F, env, n_s)[:, :, 0]
    Kn = eval_matrix(Km, env, n_s)
    Pn = eval_matrix(Pv, env, n_s)[:, :, 0]
    # documented parametrisations (k-matrix usage page) in plain numpy
    m, G, g, beta, sv = env[S["m"]], env[S["Gamma"]], env[S["gamma"]], env[S["beta"]], env[S["s"]]
    gres = g[1:] * np.sqrt(m[1:, None] * G[1:])                       # (pole, channel)
    den = m[1:, None] ** 2 - sv[None, :]                                # (pole, s)
    Kref = np.einsum("ri,rj,rn->nij", gres, gres, 1 / den)
    Pref = np.einsum("r,ri,rn->ni", beta[1:] * m[1:], g[1:] * G[1:], 1 / den)
    rec.check(bool(np.allclose(Kn, Kref, rtol=1e-10, atol=0)), "parametrization_K", "NonRelativisticKMatrix.parametrization != sum_R g_i g_j/(m_R^2-s)", desc, feats)
    rec.check(bool(np.allclose(Pn, Pref, rtol=1e-10, atol=0)), "parametrization_P", "NonRelativisticPVector.parametrization != sum_R beta_R gamma_Ri m_R Gamma_Ri/(m_R^2-s)", desc, feats)
    rec.case(("NonRelativisticPVector", n_ch, n_poles), n_ch * n_poles >= 2, cls="NonRelativisticPVector", n_channels=n_ch, n_poles=n_poles)
    rec.sample(f"NonRelativisticPVector:{n_ch}x{n_poles}", desc)
    res = np.einsum("nij,nj->ni", np.eye(n_ch) - 1j * Kn, Fn) - Pn
    scale = np.abs(Pn).max(axis=1) + np.abs(Kn).max(axis=(1, 2)) * np.abs(Fn).max(axis=1)
    dev = np.abs(res).max(axis=1)
    i = int(np.argmax(dev / scale))
    rec.check(bool((dev <= 1e-9 * scale).all()) and bool(np.isfinite(Fn).all()), "equation_residual",
              f"NonRelativisticPVector({n_ch},{n_poles}): |(1-iK)F - P| = {dev[i]:.3g} (scale {scale[i]:.3g}) at s={desc['s'][i]:.5g}", desc, feats)


def _scan(rec, F, phsp, L, radius, feats):
    import sympy as sp
    import ampform.dynamics as D
    from ampform.dynamics import phasespace as P
    phsp_classes = tuple(getattr(P, n) for n in PHSP)
    seen_phsp, bad_L, bad_d, seen_attr = set(), [], [], set()
    foreign_objects = 0
    n_ff = n_edw = 0
    for elem in F:
        for node in sp.preorder_traversal(elem):
            if isinstance(node, phsp_classes):
                seen_phsp.add(type(node).__name__)
            if isinstance(node, D.EnergyDependentWidth):
                n_edw += 1
                seen_attr.add(getattr(node.phsp_factor, "__name__", str(node.phsp_factor)))
                foreign_objects += node.phsp_factor is not phsp
                if node.angular_momentum != L:
                    bad_L.append(("EnergyDependentWidth", node.angular_momentum))
                if node.meson_radius != radius:
                    bad_d.append(("EnergyDependentWidth", node.meson_radius))
            if isinstance(node, D.FormFactor):
                n_ff += 1
                if node.angular_momentum != L:
                    bad_L.append(("FormFactor", node.angular_momentum))
                if node.meson_radius != radius:
                    bad_d.append(("FormFactor", node.meson_radius))
    want = phsp.__name__
    import inspect
    if not inspect.isclass(phsp):
        # a plain callable: what it returns is its own business (rho nodes are not classified); every width must carry
        # *this* function object
        rec.check(foreign_objects == 0, "foreign_phase_space_factor",
                  f"the callable {want} was passed as phsp_factor but {foreign_objects} of {n_edw} energy-dependent widths carry another object", None, feats)
        seen_phsp, seen_attr = set(), set()
    rec.check(seen_phsp <= {want} and seen_attr <= {want}, "foreign_phase_space_factor",
              f"phase-space factor {want} was passed but the result contains {sorted(seen_phsp | seen_attr)} (rho nodes: {sorted(seen_phsp)}; inside widths: {sorted(seen_attr)})",
              {"passed": want, "rho_nodes": sorted(seen_phsp), "width_attributes": sorted(seen_attr)}, feats)
    rec.check(not bad_L, "foreign_angular_momentum", f"L={L} was passed but the result contains {bad_L[:3]}", None, feats)
    rec.check(not bad_d, "foreign_meson_radius", f"meson_radius={radius} was passed but the result contains {bad_d[:3]}", None, feats)
    rec.check(n_ff > 0 and n_edw > 0, "structure", "result contains no FormFactor / EnergyDependentWidth node", None, feats)


def _judge_rel(rec, ctx, F, n_ch, n_poles, kw):
    import sympy as sp
    import ampform.dynamics as D
    from vmon.refmodel.kmatrix import eval_matrix, random_env, symbols
    K = ctx["K"]
    S = symbols()
    rng = ctx["case_rng"]
    phsp = kw.get("phsp_factor", D.PhaseSpaceFactor)
    L = sp.sympify(kw.get("angular_momentum", 0))
    radius = sp.sympify(kw.get("meson_radius", 1))
    f_hat = bool(kw.get("return_f_hat", False))
    feats = {"history_position": ctx.get("history_position"), "cls": "RelativisticPVector", "n_ch": n_ch, "n_poles": n_poles, "L": str(L), "phsp": phsp.__name__,
             "radius": str(radius), "f_hat": f_hat, "non_default_phsp": phsp is not D.PhaseSpaceFactor}
    rec.case(("RelativisticPVector", n_ch, n_poles, str(L), str(radius), phsp.__name__, f_hat),
             n_ch * n_poles >= 2 or phsp is not D.PhaseSpaceFactor or L != 0 or radius != 1,
             cls="RelativisticPVector", n_channels=n_ch, n_poles=n_poles, L=str(L), phsp=phsp.__name__, f_hat=f_hat)
    _scan(rec, F, phsp, L, radius, feats)
    n_s = 12
    env, desc = random_env(rng, n_ch, n_poles, n_s)
    if radius.free_symbols:
        env = {**env, **{s_: float(rng.uniform(0.5, 3)) for s_ in radius.free_symbols}}
    rec.sample(f"RelativisticPVector:{n_ch}x{n_poles}:{phsp.__name__}", {**desc, "L": str(L), "radius": str(radius), "f_hat": f_hat})
    common = dict(s=S["s"], pole_position=S["m"], pole_width=S["Gamma"], m_a=S["m_a"], m_b=S["m_b"],
                  residue_constant=S["gamma"], n_poles=n_poles, pole_id=S["R"], angular_momentum=L, meson_radius=radius)
    Km = _mat(lambda i, j: K.RelativisticKMatrix.parametrization(i=i, j=j, phsp_factor=phsp, **common), n_ch, n_ch)
    Pv = _mat(lambda i: K.RelativisticPVector.parametrization(i=i, beta_constant=S["beta"], **common), n_ch)
    rho = _mat(lambda i: phsp(S["s"], S["m_a"][i], S["m_b"][i]), n_ch)
    Fn = eval_matrix(F, env, n_s)[:, :, 0]
    Kn = eval_matrix(Km, env, n_s)
    Pn = eval_matrix(Pv, env, n_s)[:, :, 0]
    rn = eval_matrix(rho, env, n_s)[:, :, 0]
    fin = np.isfinite(Fn).all() and np.isfinite(Kn).all() and np.isfinite(rn).all()
    rec.check(bool(fin), "non_finite", f"RelativisticPVector({n_ch},{n_poles},{phsp.__name__}) not finite above thresholds", desc, feats)
    if not fin:
        return
    # documented parametrisations in numpy; widths / form factors evaluated through ampform.dynamics' own classes
    m, G, g, beta, sv = env[S["m"]], env[S["Gamma"]], env[S["gamma"]], env[S["beta"]], env[S["s"]]
    W = _mat(lambda r, i: D.EnergyDependentWidth(S["s"], S["m"][r + 1], S["Gamma"][r + 1, i], S["m_a"][i], S["m_b"][i], L, radius, phsp), n_poles, n_ch)
    FFm = _mat(lambda i: D.FormFactor(S["s"], S["m_a"][i], S["m_b"][i], L, radius), n_ch)
    Wn = eval_matrix(W, env, n_s)                                       # (s, pole, channel)
    FFn = eval_matrix(FFm, env, n_s)[:, :, 0]                           # (s, channel)
    # the width itself against its documented definition Gamma0 (F(s)/F(m0^2))^2 rho(s)/rho(m0^2), with F and rho evaluated
    # separately at s and at the pole and rho the phase-space factor the *caller* passed
    FF0 = _mat(lambda r, i: D.FormFactor(S["m"][r + 1] ** 2, S["m_a"][i], S["m_b"][i], L, radius), n_poles, n_ch)
    rho0 = _mat(lambda r, i: phsp(S["m"][r + 1] ** 2, S["m_a"][i], S["m_b"][i]), n_poles, n_ch)
    FF0n, rho0n = eval_matrix(FF0, env, n_s), eval_matrix(rho0, env, n_s)
    with np.errstate(all="ignore"):
        Wdef = G[1:][None] * (FFn[:, None, :] / FF0n) ** 2 * (rn[:, None, :] / rho0n)
    okw = np.isclose(Wn, Wdef, rtol=1e-8, atol=0) | ~np.isfinite(Wdef)
    rec.check(bool(okw.all()), "width_definition",
              f"EnergyDependentWidth(..., phsp_factor={phsp.__name__}) != Gamma0 (F(s)/F(m0^2))^2 rho(s)/rho(m0^2) with the phase-space factor that was passed "
              f"(max relative deviation {np.nanmax(np.abs(Wn / Wdef - 1)):.3g})", desc, feats)
    gres = g[1:][None] * np.sqrt(m[1:][None, :, None] * Wn + 0j)        # (s, pole, channel)
    den = m[1:][None, :] ** 2 - sv[:, None]                             # (s, pole)
    Kref = np.einsum("nri,nrj,nr->nij", gres, gres, 1 / den)
    Pref = np.einsum("r,ri,ni,nr->ni", beta[1:] * m[1:], g[1:] * G[1:], FFn, 1 / den)
    rec.check(bool(np.allclose(Kn, Kref, rtol=1e-9, atol=0)), "parametrization_K",
              "RelativisticKMatrix.parametrization != sum_R g_Ri(s) g_Rj(s)/(m_R^2-s) with g = gamma sqrt(m Gamma(s))", desc, feats)
    rec.check(bool(np.allclose(Pn, Pref, rtol=1e-9, atol=0)), "parametrization_P",
              "RelativisticPVector.parametrization != sum_R beta_R gamma_Ri m_R Gamma_Ri F_i(s)/(m_R^2-s)", desc, feats)
    sq = np.sqrt(rn.astype(complex))
    Fhat = Fn if f_hat else Fn / sq
    Khat = Kn / (np.conj(sq)[:, :, None] * sq[:, None, :])
    A = np.eye(n_ch)[None] - 1j * Khat * rn[:, None, :]
    res = np.einsum("nij,nj->ni", A, Fhat) - Pn
    scale = np.abs(Pn).max(axis=1) + np.abs(Khat * rn[:, None, :]).max(axis=(1, 2)) * np.abs(Fhat).max(axis=1)
    dev = np.abs(res).max(axis=1)
    i = int(np.argmax(dev / scale))
    rec.check(bool((dev <= 1e-8 * scale).all()), "equation_residual",
              f"RelativisticPVector({n_ch} ch, {n_poles} poles, L={L}, {phsp.__name__}, f_hat={f_hat}): |(1 - i K-hat rho) F-hat - P| = {dev[i]:.3g} "
              f"(scale {scale[i]:.3g}) at s={desc['s'][i]:.5g} with K, P, rho from the library's parametrizations for the arguments passed",
              desc, feats)


def run_case(case, rec, ctx):
    import sympy as sp
    import ampform.dynamics as D
    from vmon.refmodel.kmatrix import eval_matrix, random_env, symbols
    K = ctx["K"]
    rng = ctx["case_rng"] = np.random.default_rng([ctx["seed"], 10, case["idx"]])
    if case["cls"] == "callable_phsp":
        rec.case(("callable_phsp", case["n_ch"]), True, cls="callable_phsp", n_channels=case["n_ch"])
        fns = [lambda s_, ma, mb: D.PhaseSpaceFactor(s_, ma, mb) / 2, lambda s_, ma, mb: D.PhaseSpaceFactorSWave(s_, ma, mb) / 2]

        def factory(p_):
            def rho(s_, ma, mb):
                return D.PhaseSpaceFactorAbs(s_, ma, mb) ** p_
            return rho
        fns += [factory(1), factory(2)]
        for j, fn in enumerate(fns):
            ctx["history_position"] = j
            K.RelativisticPVector.formulate(case["n_ch"], case["n_poles"], return_f_hat=bool(j % 2), phsp_factor=fn, angular_momentum=1, meson_radius=1.3)
        ctx["history_position"] = None
        return
    if case["cls"] == "history":
        rec.case(("history", case["klass"], case["n_ch"], tuple(case["seq"])), True, cls="history:" + case["klass"], n_channels=case["n_ch"])
        for j, n_poles in enumerate(case["seq"]):
            ctx["history_position"] = j
            if case["klass"] == "NonRelativisticPVector":
                if j == 1:
                    K.NonRelativisticPVector.formulate(case["n_ch"], n_poles, parametrize=False)
                K.NonRelativisticPVector.formulate(case["n_ch"], n_poles)
            else:
                ph = PHSP[(j + case["k"]) % len(PHSP)]
                K.RelativisticPVector.formulate(case["n_ch"], n_poles, return_f_hat=bool(j % 2), phsp_factor=getattr(D, ph),
                                                angular_momentum=(j + case["k"]) % 3, meson_radius=[1, 2.5][j % 2])
        ctx["history_position"] = None
        return
    if case["cls"] == "NonRelativisticPVector":
        K.NonRelativisticPVector.formulate(case["n_ch"], case["n_poles"])
        return
    if case["cls"] == "RelativisticPVector":
        radius = sp.Symbol("d", positive=True) if case["radius"] == "symbol" else case["radius"]
        K.RelativisticPVector.formulate(case["n_ch"], case["n_poles"], return_f_hat=case["f_hat"], phsp_factor=getattr(D, case["phsp"]),
                                        angular_momentum=case["L"], meson_radius=radius)
        return
    S = symbols()
    n_s = 12
    env, desc = random_env(rng, 1, 1, n_s)
    env[S["gamma"]] = np.array([[0.0], [1.0]])
    env[S["beta"]] = np.array([0.0, 1.0])
    sv, m0, G0 = S["s"], S["m"][1], S["Gamma"][1, 0]
    if case["cls"] == "reduction_nonrel":
        feats = {"cls": "reduction_nonrel"}
        rec.case(("reduction_nonrel",), True, cls="reduction")
        bw = sp.Matrix([[D.relativistic_breit_wigner(sv, m0, G0)]])
        ref = eval_matrix(bw, env, n_s)[:, 0, 0]
        T = eval_matrix(K.NonRelativisticKMatrix.formulate(1, 1), env, n_s)[:, 0, 0]
        F = eval_matrix(K.NonRelativisticPVector.formulate(1, 1), env, n_s)[:, 0, 0]
        rec.check(bool(np.allclose(T, ref, rtol=1e-10, atol=0)), "bw_reduction", "NonRelativisticKMatrix(1,1,gamma=1) != relativistic_breit_wigner", desc, feats)
        rec.check(bool(np.allclose(F, ref, rtol=1e-10, atol=0)), "bw_reduction", "NonRelativisticPVector(1,1,gamma=beta=1) != relativistic_breit_wigner", desc, feats)
        return
    ph = getattr(D, case["phsp"])
    L = case["L"]
    d = float(np.round(rng.uniform(0.5, 3), 3))
    feats = {"cls": "reduction", "phsp": case["phsp"], "L": L, "non_default_phsp": case["phsp"] != "PhaseSpaceFactor"}
    rec.case(("reduction", case["phsp"], L), True, cls="reduction", phsp=case["phsp"], L=L)
    Fh = K.RelativisticPVector.formulate(1, 1, return_f_hat=True, phsp_factor=ph, angular_momentum=L, meson_radius=d)
    got = eval_matrix(Fh, env, n_s)[:, 0, 0]
    bw = sp.Matrix([[D.relativistic_breit_wigner_with_ff(sv, m0, G0, S["m_a"][0], S["m_b"][0], L, d, ph)]])
    ref = eval_matrix(bw, env, n_s)[:, 0, 0]
    ok = np.abs(got - ref) <= 1e-9 * np.abs(ref)
    i = int(np.argmin(ok))
    rec.check(bool(ok.all()), "bw_reduction",
              f"RelativisticPVector(1,1,return_f_hat, gamma=beta=1, {case['phsp']}, L={L}) = {got[i]} != relativistic_breit_wigner_with_ff = {ref[i]}",
              {**desc, "d": d}, feats)


META = {
    "technique": "runtime post-conditions on (Non)RelativisticPVector.formulate: structural scan of the returned expression tree for foreign phase-space factors / L / radius, and numeric residual of the K-matrix equation with K, P, rho taken from the library's own parametrization methods for the caller's arguments",
    "level_text": "Each formulate() call of the workload (n_channels 1..2 quick / ..3 thorough, n_poles 1..3, all five PhaseSpaceFactorProtocol implementations, L 0..2/4, numeric and symbolic radius, return_f_hat on/off) is judged structurally and by the residual |(1-iK-hat rho)F-hat - P| at 12 s-values on a random parameter set with complex beta; the one-channel one-pole reductions to relativistic_breit_wigner(_with_ff) are evaluated for all phase-space factors and L 0..2. Also: the width inside K against its definition with the caller's phase-space factor, phase-space factors given as look-alike lambdas/closures, and call histories with the same n_channels.",
    "level_note": "The reference K, P are ampform's own parametrization methods (the statement says so); numpy solves nothing, only the residual is computed. 3-channel cases thorough only and only for the non-relativistic P-vector: RelativisticPVector.formulate(3, ...) does not return within 50 minutes on this machine, so that configuration is not explored.",
}
