"""C14 — unevaluated expressions obey substitution, equality and folding laws."""
from __future__ import annotations

import dataclasses

import numpy as np

ID = "C14"
LEVEL = "exploration"
RULE = ("case = one expression class found by introspecting the ampform package (x argument shapes symbol / number / "
        "compound / nested-unevaluated) or the node population of one real model; every instance (generated, "
        "harvested from unfolding, or taken from real kinematic variables / dynamics) is law-checked with up to six "
        "substitution maps; distinct = (class, argument shape, law, map kind); non-trivial iff the instance has a "
        "nested ampform-class argument or a non-SymPy attribute")
ASSUMPTIONS = ["structural equality first; numeric equality (route A, 5 points) where SymPy auto-evaluation makes the two sides differ structurally"]
FLOORS = {"quick": {"evaluations": 3000, "distinct_nontrivial": 150, "hooks": ["law:subs_commutes", "law:xreplace_commutes", "law:hash_eq", "law:folded_code"]},
          "thorough": {"evaluations": 8000, "distinct_nontrivial": 250, "hooks": ["law:subs_commutes", "law:xreplace_commutes", "law:hash_eq", "law:folded_code"]}}
CASE_TIMEOUT = {"quick": 400, "thorough": 1500}
MODEL_FIXTURES = ["jpsi_gamma_pi0_pi0__f0.hel", "jpsi_kp_km_pip_pim__phi_f0.hel", "lambdac_p_km_pip__l1520_d1232_kst.can"]


def plan(tier, seed):
    from vmon.workloads.exprs import discover_classes
    cases = []
    for key, cls in sorted(discover_classes().items()):
        cases.append({"kind": "class", "key": key, "cost": 3.0 if dataclasses.is_dataclass(cls) else 1.0})
    cases.append({"kind": "helpers", "cost": 4.0})
    cases.append({"kind": "callable_attrs", "cost": 4.0})
    reps = 3 if tier == "quick" else 60
    for key, cls in sorted(discover_classes().items()):
        if dataclasses.is_dataclass(cls) and not cls.__name__.startswith("_"):
            for chunk in range(1 if tier == "quick" else 4):
                cases.append({"kind": "random", "key": key, "reps": reps // (1 if tier == "quick" else 4), "chunk": chunk,
                              "cost": 0.4 * reps / (1 if tier == "quick" else 4)})
    for fx in (MODEL_FIXTURES if tier == "thorough" else MODEL_FIXTURES[:2]):
        for dyn in ("bw_ff", "analytic"):
            cases.append({"kind": "model", "fixture": fx, "dynamics": dyn, "cost": 8.0})
    return cases


def setup_worker(rec, ctx):
    from vmon.workloads import exprs
    ctx["classes"] = exprs.discover_classes()
    ctx["pool"] = exprs.Pool()
    ctx["generated"] = exprs.generate_instances(ctx["classes"], ctx["pool"])
    ctx["seen_classes"] = set()


def _maps(e, pool):
    import sympy as sp
    from vmon.workloads.exprs import _array_symbols, _scalar_symbols
    scal = [s for s in _scalar_symbols(e) if not s.is_integer]
    arr = _array_symbols(e)
    out = []
    fresh = sp.Symbol("v_new", positive=True)
    for s in scal[:2]:
        out.append(("sym->sym", {s: fresh}))
        out.append(("sym->number", {s: sp.Rational(9, 7)}))
        out.append(("sym->expr", {s: fresh ** 2 + sp.Rational(1, 3)}))
    if len(scal) >= 2:
        out.append(("simultaneous", {scal[0]: scal[1] + 1, scal[1]: sp.Rational(3, 2)}))
    if scal:
        # a symbol replaced by an unevaluated expression (the replacement itself must unfold)
        out.insert(0, ("sym->unevaluated", {scal[-1]: pool.scalar("nested", len(scal))}))
    amaps = [("array->array", {a: pool.k}) for a in arr[:1]]
    if len(arr) >= 2:
        amaps.append(("array->array", {arr[0]: arr[1], arr[1]: pool.k}))
    return amaps + out[:7 - len(amaps)]


def _has_nested(e):
    from vmon.workloads.exprs import is_ampform_instance
    import sympy as sp
    return any(is_ampform_instance(n) for a in e.args for n in sp.preorder_traversal(a))


def check_instance(rec, ctx, e, key, shape, rng):
    import sympy as sp
    from vmon.workloads import exprs
    cls = type(e)
    name = cls.__name__
    ctx["seen_classes"].add(key)
    is_dc = dataclasses.is_dataclass(cls)
    extras = exprs.non_sympy_fields(cls) if is_dc else []
    nontrivial = _has_nested(e) or bool(extras)
    feats = {"cls": name, "shape": shape, "nested": _has_nested(e), "non_sympy_fields": [f.name for f in extras]}

    def law(lawname, mapkind, ok, what, wit=None):
        rec.hit(f"law:{lawname}")
        rec.case((name, shape.split("/")[0], lawname, mapkind), nontrivial, cls=name, law=lawname, shape=shape.split("/")[0])
        rec.check(ok, lawname, f"{name}: {what}", {"expr": sp.srepr(e)[:600], **(wit or {})}, {**feats, "map": mapkind})

    # ---- rebuild / equality / hash -------------------------------------------------------
    if not extras:
        try:
            r = e.func(*e.args)
            law("rebuild", "-", r == e and hash(r) == hash(e), f"func(*args) = {sp.srepr(r)[:200]} != original")
        except Exception as exc:  # noqa: BLE001
            law("rebuild", "-", False, f"func(*args) raised {exc!r}")
    if is_dc:
        vals = {f.name: getattr(e, f.name) for f in dataclasses.fields(cls)}
        try:
            twin = cls(**vals)
            law("hash_eq", "twin", twin == e and hash(twin) == hash(e), "an instance rebuilt from its own field values is unequal or hashes differently")
            # the same field values passed by keyword in another order, and partly positionally, must give the same instance
            names = list(vals)
            sf_names = [f.name for f in exprs.sympy_fields(cls)]
            for trial in range(3):
                order = [names[i] for i in rng.permutation(len(names))]
                n_pos = int(rng.integers(0, len(sf_names) + 1)) if trial else 0
                if names[: len(sf_names)] != sf_names:
                    n_pos = 0   # a non-SymPy field is declared before a SymPy field: positional arguments follow the declaration order
                pos = [vals[nm] for nm in sf_names[:n_pos]]
                kw = {nm: vals[nm] for nm in order if nm not in sf_names[:n_pos]}
                if trial == 2:   # only the fields without a default, by keyword (defaults left out)
                    kw = {nm: v for nm, v in kw.items() if nm in sf_names}
                    if any(vals[f.name] != f.default for f in extras if f.default is not dataclasses.MISSING) or any(f.default is dataclasses.MISSING for f in extras):
                        continue
                built = cls(*pos, **kw)
                law("hash_eq", "keyword_order", built == e and built.args == e.args,
                    f"constructing with {n_pos} positional and keywords in the order {list(kw)} gives {sp.srepr(built)[:200]}, not the instance built in declaration order")
        except Exception as exc:  # noqa: BLE001
            law("hash_eq", "twin", False, f"rebuilding from field values raised {exc!r}")
        for f in extras:
            alt = dict(vals)
            if f.name == "phsp_factor":
                alt[f.name] = next(c for c in ctx["pool"].phsp if c is not vals[f.name])
            elif f.name == "name":
                alt[f.name] = "other" if vals[f.name] != "other" else None
            else:
                continue
            other = cls(**alt)
            law("hash_eq", f"differs_in:{f.name}", other != e and hash(other) != hash(e),
                f"instances differing only in the non-SymPy attribute {f.name} compare equal or hash alike")
        sf = exprs.sympy_fields(cls)
        if sf and not name.startswith("_"):
            alt = dict(vals)
            alt[sf[0].name] = vals[sf[0].name] + 1 if sf[0].name not in exprs.ARRAY_FIELDS | exprs.SIZE_FIELDS else \
                (ctx["pool"].k if sf[0].name in exprs.ARRAY_FIELDS else ctx["pool"].L.ArraySize(ctx["pool"].k))
            try:
                other = cls(**alt)
                law("hash_eq", "differs_in:arg", other != e, "instances differing in an argument compare equal")
            except Exception:  # noqa: BLE001, S110
                pass
    else:
        law("hash_eq", "twin", e.func(*e.args) == e and hash(e.func(*e.args)) == hash(e), "func(*args) unequal / different hash")

    # ---- substitution commutes with unfolding -------------------------------------------
    for mapkind, m in _maps(e, ctx["pool"]):
        for api in ("xreplace", "subs"):
            lawname = f"{api}_commutes"
            try:
                sub = e.xreplace(m) if api == "xreplace" else e.subs(m, simultaneous=True)
                lhs = sp.sympify(sub).doit()
            except Exception as exc:  # noqa: BLE001
                law(lawname, mapkind, False, f"{api}({m}) then doit() raised {type(exc).__name__}: {exc}", {"map": str(m)})
                continue
            try:
                d = e.doit()
                rhs = d.xreplace(m) if api == "xreplace" else d.subs(m, simultaneous=True)
                rhs = sp.sympify(rhs).doit()
            except Exception as exc:  # noqa: BLE001
                rec.note(f"rhs_raised:{type(exc).__name__}")
                continue
            # the substituted-but-still-folded object must have the right structure as well
            bad_tuple = [a for a in getattr(sub, "args", ()) if isinstance(a, sp.Tuple) and not isinstance(e.args[list(sub.args).index(a)] if len(e.args) == len(sub.args) else None, sp.Tuple)]
            ok = lhs == rhs
            if not ok:
                try:
                    env = exprs.random_env(lhs + 0 if False else sp.Tuple(lhs, rhs), rng)
                    ok = exprs.same(exprs.numeric(lhs, env), exprs.numeric(rhs, env))
                    rec.note("numeric_fallback")
                    if not ok:
                        ok = exprs.same_up_to_conditioning(lambda e_: exprs.numeric(lhs, e_), lambda e_: exprs.numeric(rhs, e_), env, rng)
                        if ok:
                            rec.note("numeric_fallback_ill_conditioned")
                except Exception as exc:  # noqa: BLE001
                    law(lawname, mapkind, False, f"{api}({m}): sides differ structurally and numeric evaluation raised {type(exc).__name__}: {exc}",
                        {"map": str(m), "lhs": sp.srepr(lhs)[:300], "rhs": sp.srepr(rhs)[:300]})
                    continue
            law(lawname, mapkind, ok and not bad_tuple,
                f"{api}({m}) then doit() != doit() then {api}" + (f"; argument turned into Tuple: {sp.srepr(sub)[:200]}" if bad_tuple else ""),
                {"map": str(m), "lhs": sp.srepr(lhs)[:300], "rhs": sp.srepr(rhs)[:300]})
    # ---- folded code == unfolded code ---------------------------------------------------
    if isinstance(e, sp.Expr):
        try:
            env = exprs.random_env(e, rng)
            ref = exprs.numeric(e, env, unfolded=True, cse=True)
        except Exception as exc:  # noqa: BLE001
            rec.note(f"unfolded_not_evaluable:{name}:{type(exc).__name__}")
            return
        for cse in (True, False):
            try:
                got = exprs.numeric(e, env, unfolded=False, cse=cse)
            except Exception as exc:  # noqa: BLE001
                rec.note(f"folded_not_printable:{name}")
                rec.stratum("folded_not_printable", name)
                continue
            ok_ = exprs.same(got, ref) or exprs.same_up_to_conditioning(
                lambda e_, c_=cse: exprs.numeric(e, e_, unfolded=False, cse=c_), lambda e_: exprs.numeric(e, e_, unfolded=True, cse=True), env, rng)
            law("folded_code", f"cse={cse}", ok_, f"lambdify(folded, cse={cse}) != lambdify(doit())",
                {"folded": got, "unfolded": ref})
        try:
            got = exprs.numeric(e, env, unfolded=True, cse=False)
            ok_ = exprs.same(got, ref) or exprs.same_up_to_conditioning(
                lambda e_: exprs.numeric(e, e_, unfolded=True, cse=False), lambda e_: exprs.numeric(e, e_, unfolded=True, cse=True), env, rng)
            law("folded_code", "unfolded cse off", ok_, "lambdify(doit(), cse=False) != lambdify(doit(), cse=True)")
        except Exception as exc:  # noqa: BLE001
            law("folded_code", "unfolded cse off", False, f"lambdify(doit(), cse=False) raised {type(exc).__name__}: {exc}")


def _callable_attrs(rec, ctx, rng):
    """Non-SymPy attributes that are plain callables (the phsp_factor protocol is 'any callable (s, m1, m2) -> Expr'):
    distinct function objects are distinct attribute values even when module and qualified name coincide (closures of one
    factory, lambdas of one scope, bound methods of two objects)."""
    import sympy as sp
    from vmon.workloads import exprs
    D = ctx["pool"].D

    def factory(power):
        def phsp(s, m1, m2):
            return D.PhaseSpaceFactor(s, m1, m2) ** power
        return phsp
    lambdas = [lambda s, m1, m2, k=k: D.PhaseSpaceFactorAbs(s, m1, m2) + k for k in (1, 2)]

    class Holder:
        def __init__(self, c):
            self.c = c

        def phsp(self, s, m1, m2):
            return self.c * D.PhaseSpaceFactor(s, m1, m2)
    h1, h2 = Holder(2), Holder(3)
    groups = {"closures": [factory(1), factory(2)], "lambdas": lambdas, "bound_methods": [h1.phsp, h2.phsp]}
    pool = ctx["pool"]
    n_cls = 0
    for key, cls in sorted(ctx["classes"].items()):
        if not dataclasses.is_dataclass(cls) or cls.__name__.startswith("_"):
            continue
        if "phsp_factor" not in [f.name for f in exprs.non_sympy_fields(cls)]:
            continue
        n_cls += 1
        args = [pool.integer("symbol", 1) if f.name in exprs.INT_FIELDS else pool.scalar("symbol", fi) for fi, f in enumerate(exprs.sympy_fields(cls))]
        _others = {f.name: None for f in exprs.non_sympy_fields(cls) if f.name != "phsp_factor" and f.default is dataclasses.MISSING}
        mk = lambda fn_: exprs.build(cls, args, {"phsp_factor": fn_, **_others})  # noqa: E731
        feats = {"cls": cls.__name__, "shape": "callable_attr", "nested": False, "non_sympy_fields": ["phsp_factor"]}
        for gname, (f1, f2) in groups.items():
            w1, w2, w1b = mk(f1), mk(f2), mk(f1)
            rec.hit("law:hash_eq")
            rec.case((cls.__name__, "callable_attr", "hash_eq", gname), True, cls=cls.__name__, law="hash_eq", shape="callable_attr")
            rec.check(w1 == w1b and hash(w1) == hash(w1b), "hash_eq", f"{cls.__name__}: two instances with the same function object as phsp_factor ({gname}) are unequal", None, {**feats, "map": gname})
            rec.check(w1 != w2 and hash(w1) != hash(w2), "hash_eq",
                      f"{cls.__name__}: instances whose phsp_factor are two different function objects ({gname}: same module and qualified name, different behaviour) compare equal or hash alike",
                      {"w1": sp.srepr(w1)[:200]}, {**feats, "map": gname})
            d = w1 - w2   # Add collects equal terms: must not cancel (no simplify: SymPy's simplifiers may identify look-alike generators)
            rec.check(d != 0, "hash_eq", f"{cls.__name__}: w1 - w2 collapses to 0 although the two unfold differently ({gname})", None, {**feats, "map": gname})
            # substitution history: the same map applied to w1, then to w2 (SymPy caches subs by equality/hash)
            scal = [s_ for s_ in exprs._scalar_symbols(w1) if not s_.is_integer]
            m = {scal[0]: sp.Rational(13, 10)}
            for tag, w in (("first", w1), ("second", w2)):
                for api in ("subs", "xreplace"):
                    rec.hit(f"law:{api}_commutes")
                    rec.case((cls.__name__, "callable_attr", api, gname), True, cls=cls.__name__, law=f"{api}_commutes", shape="callable_attr")
                    try:
                        lhs = (w.subs(m) if api == "subs" else w.xreplace(m)).doit()
                        rhs = w.doit().subs(m) if api == "subs" else w.doit().xreplace(m)
                        ok = sp.simplify(lhs - rhs) == 0
                    except Exception as exc:  # noqa: BLE001
                        ok = False
                        lhs = rhs = repr(exc)
                    rec.check(bool(ok), f"{api}_commutes", f"{cls.__name__} with a callable phsp_factor ({gname}, {tag} of two look-alike instances): {api} then doit() != doit() then {api}",
                              {"lhs": str(lhs)[:200], "rhs": str(rhs)[:200]}, {**feats, "map": gname})
    rec.sample("callable_attrs", {"classes_with_phsp_factor": n_cls, "groups": list(groups)})


def run_case(case, rec, ctx):
    import sympy as sp
    from vmon.workloads import exprs
    rng = np.random.default_rng([ctx["seed"], 14, case["idx"]])
    if case["kind"] == "class":
        key = case["key"]
        cls = ctx["classes"][key]
        mine = [(k, sh, inst) for k, sh, inst in ctx["generated"] if k == key]
        rec.stratum("classes_discovered", cls.__name__)
        n_checked = 0
        for k, sh, inst in mine:
            if isinstance(inst, Exception):
                rec.check(False, "construction", f"{cls.__name__}: constructing the {sh} argument shape raised {inst!r}", None, {"cls": cls.__name__, "shape": sh})
                continue
            rec.sample(f"{cls.__name__}:{sh.split('/')[0]}", sp.srepr(inst)[:300])
            check_instance(rec, ctx, inst, key, sh, rng)
            n_checked += 1
            for node, depth in exprs.harvest(inst).items():
                if node is inst or depth == 0:
                    continue
                nk = f"{type(node).__module__}.{type(node).__qualname__}"
                if type(node).__name__.startswith("_") and sh.startswith(("symbol", "nested")):
                    check_instance(rec, ctx, node, nk, f"harvested:{sh.split('/')[0]}", rng)
        return
    if case["kind"] == "random":
        key = case["key"]
        cls = ctx["classes"][key]
        r2 = np.random.default_rng([ctx["seed"], 14, 77, case["idx"]])
        for k in range(case["reps"]):
            try:
                inst = exprs.random_instance(cls, ctx["pool"], r2)
            except Exception as exc:  # noqa: BLE001
                rec.check(False, "construction", f"{cls.__name__}: constructing a random argument combination raised {exc!r}", None, {"cls": cls.__name__, "shape": "random"})
                continue
            check_instance(rec, ctx, inst, key, "random", rng)
        return
    if case["kind"] == "callable_attrs":
        _callable_attrs(rec, ctx, rng)
        return
    if case["kind"] == "helpers":
        for k, sh, inst in exprs.helper_instances(ctx["pool"]):
            rec.sample(k, sp.srepr(inst)[:300])
            check_instance(rec, ctx, inst, k, sh, rng)
        return
    # real model population
    from ampform import get_builder
    from ampform.dynamics.builder import create_analytic_breit_wigner, create_relativistic_breit_wigner_with_ff
    from vmon.workloads.reactions import load_fixture
    r = load_fixture(case["fixture"])
    b = get_builder(r)
    for n_ in r.get_intermediate_particles().names:
        b.dynamics.assign(n_, create_relativistic_breit_wigner_with_ff if case["dynamics"] == "bw_ff" else create_analytic_breit_wigner)
    model = b.formulate()
    nodes: dict = {}
    for expr in list(model.kinematic_variables.values()) + list(model.amplitudes.values()):
        for node in sp.preorder_traversal(expr):
            if exprs.is_ampform_instance(node) and node not in nodes:
                nodes[node] = 1
    rec.sample("model", {"fixture": case["fixture"], "ampform_nodes": len(nodes)})
    by_cls: dict = {}
    for node in nodes:
        by_cls.setdefault(type(node).__name__, []).append(node)
    for cname, lst in sorted(by_cls.items()):
        lst = sorted(lst, key=lambda n_: -len(sp.srepr(n_)))[:3]  # the most deeply nested representatives
        for node in lst:
            nk = f"{type(node).__module__}.{type(node).__qualname__}"
            check_instance(rec, ctx, node, nk, "real-model", rng)


def teardown_worker(rec, ctx):
    pass


META = {
    "technique": "runtime law monitors over an introspected instance population (generated argument shapes, nodes harvested from unfolding, nodes of real models): subs/xreplace commute with doit, equality/hash, func(*args) rebuild, folded vs unfolded generated code",
    "level_text": "All sympy.Basic subclasses found by walking the ampform package (47 today) are instantiated with symbol / number / compound / nested-unevaluated argument shapes and, for non-SymPy fields, every phase-space class and name value; every instance plus every private implementation node it unfolds to plus the deepest nodes of real models (4-body kinematics, form-factor and analytic Breit-Wigner dynamics) is checked against the laws with up to seven substitution maps (symbol->symbol/number/expression, simultaneous, array->array) through both xreplace and subs, and its generated NumPy code is compared folded vs unfolded with cse on and off. Also: keyword construction in any order, callables as non-SymPy attributes (closures, lambdas, bound methods with equal qualified names), 3-60 randomly drawn argument/attribute combinations per class, shaped array symbols with out-of-range slices, and three toy classes written with the decorator whose non-SymPy field is not last.",
    "level_note": "Structural equality, else numeric equality at 5 random points; a folded form that cannot be printed at all (no _numpycode) is counted, not judged; classes are discovered at run time so the class list is whatever the working tree defines.",
}
