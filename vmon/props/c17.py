"""C17 — rename_symbols is a consistent renaming of the whole model."""
from __future__ import annotations

import numpy as np

ID = "C17"
LEVEL = "exploration"
RULE = ("case = (model from C01's population, rename-map kind): injective parameter renames, merging two parameters with equal "
        "assumptions, chains a->b b->c, swaps a<->b, kinematic-variable renames to fresh names, empty map, unknown names, "
        "renaming everything, repeated and inverse renames. The snapshot/ensure contract on HelicityModel.rename_symbols "
        "judges every call structurally (each attribute == original with the symbol map applied independently; C01 closure; "
        "assumptions; original untouched); the case then compares intensities numerically through the full pipeline. "
        "distinct = (reaction, configuration, map kind); non-trivial iff the map renames >= 1 symbol that occurs in >= 2 "
        "attributes of the model")
ASSUMPTIONS = ["merging maps only between parameters with equal assumptions (the statement cannot hold otherwise)",
               "kinematic variables are renamed to fresh names only"]
FLOORS = {"quick": {"evaluations": 1500, "distinct_nontrivial": 60, "hooks": ["HelicityModel.rename_symbols", "pipeline:renamed"]},
          "thorough": {"evaluations": 15000, "distinct_nontrivial": 500, "hooks": ["HelicityModel.rename_symbols", "pipeline:renamed"]}}
CASE_TIMEOUT = {"quick": 300, "thorough": 900}
WALL_BUDGET = {"quick": 900, "thorough": 10800}
class _Skip(Exception):
    pass


MAP_KINDS = ["injective", "merge", "chain", "swap", "kinematic_fresh", "empty", "unknown", "all_parameters", "repeat_inverse", "mass_everywhere"]
FIXTURES = ["jpsi_gamma_pi0_pi0__f0.hel", "jpsi_gamma_pi0_pi0__f0_f2.can", "lambdac_p_km_pip__l1520_d1232_kst.hel", "jpsi_pi0_pip_pim__rho.hel",
            "jpsi_p_pbar_pi0__n1440.hel", "d0_km_pip_pi0__kst_rho.can", "jpsi_k0_sigmap_pbar__sigma1750.hel", "tau_nu_pim_pi0__rho.hel",
            "jpsi_kp_km_pip_pim__phi_f0.hel", "etac_lambda_lambdabar.can", "jpsi_gamma_pi0_pi0__omega.hel", "xi_lambda_pim.hel"]


def plan(tier, seed):
    from vmon.workloads.reactions import fixture_names
    rng = np.random.default_rng([seed, 17])
    cases = []
    names = FIXTURES if tier == "quick" else [n for n in fixture_names() if not n.startswith(("psi2s", "lambdab"))]
    for name in names:
        for cfgk in range(2 if tier == "quick" else 4):
            for kind in MAP_KINDS:
                if tier == "quick" and (cfgk + MAP_KINDS.index(kind)) % 2:
                    continue
                cases.append({"reaction": {"kind": "fixture", "name": name}, "cfg_index": cfgk, "map": kind, "seed": int(rng.integers(1 << 30)), "cost": 4.0})
    for k in range(20 if tier == "quick" else 300):
        cases.append({"reaction": {"kind": "synth", "seed": int(rng.integers(1 << 30)), "formalism": ["helicity", "canonical-helicity"][k % 2]},
                      "cfg_index": 1 + k % 3, "map": MAP_KINDS[k % len(MAP_KINDS)], "seed": int(rng.integers(1 << 30)), "cost": 3.0})
    return cases


def digest_model(m):
    import hashlib
    import sympy as sp
    parts = [sp.srepr(m.intensity), [(sp.srepr(k), sp.srepr(v)) for k, v in m.amplitudes.items()], [(sp.srepr(k), repr(v)) for k, v in m.parameter_defaults.items()],
             [(sp.srepr(k), sp.srepr(v)) for k, v in m.kinematic_variables.items()], [(k, sp.srepr(v)) for k, v in m.components.items()]]
    return hashlib.sha256(repr(parts).encode()).hexdigest()


def all_symbols(m):
    import sympy as sp
    out = set()
    for e in [m.intensity, *m.amplitudes.values(), *m.components.values(), *m.kinematic_variables.values()]:
        out |= {s for s in e.free_symbols if isinstance(s, sp.Symbol)}
    out |= {s for s in m.parameter_defaults if isinstance(s, sp.Symbol)}
    out |= set(m.kinematic_variables)
    for a in m.amplitudes:
        out |= {s for s in a.free_symbols if isinstance(s, sp.Symbol)}
    return out


def setup_worker(rec, ctx):
    import sympy as sp
    from ampform.helicity import HelicityModel
    from vmon.core import attach
    from vmon.refmodel.closure import judge_closure

    def snapshot(self, renames):
        return {"digest": digest_model(self), "renames": dict(renames)}

    def ensure(old, new, self, renames):
        renames = old["renames"]
        feats = dict(ctx.get("feats") or {})
        label = ctx.get("label", "model")
        rec.check(digest_model(self) == old["digest"], "original_modified", f"{label}: rename_symbols({renames}) modified the original model", None, feats)
        syms = all_symbols(self)
        smap = {s: sp.Symbol(renames[s.name], **s.assumptions0) for s in syms if s.name in renames}
        # independent application of the map
        exp_int = self.intensity.xreplace(smap)
        rec.check(new.intensity == exp_int, "intensity_not_renamed", f"{label}: intensity after rename_symbols({_short(renames)}) != original with the map applied", None, feats)
        exp_amp = {k.xreplace(smap): v.xreplace(smap) for k, v in self.amplitudes.items()}
        rec.check(dict(new.amplitudes) == exp_amp, "amplitudes_not_renamed",
                  f"{label}: amplitudes after rename_symbols({_short(renames)}) != originals with the map applied "
                  f"(differing: {[str(k) for k in exp_amp if dict(new.amplitudes).get(k) != exp_amp[k]][:3]})", None, feats)
        exp_comp = {k: v.xreplace(smap) for k, v in self.components.items()}
        rec.check(dict(new.components) == exp_comp, "components_not_renamed",
                  f"{label}: components after rename_symbols({_short(renames)}) != originals with the map applied "
                  f"(differing: {[k for k in exp_comp if dict(new.components).get(k) != exp_comp[k]][:2]})", None, feats)
        exp_kin = {smap.get(k, k): v.xreplace(smap) for k, v in self.kinematic_variables.items()}
        rec.check(dict(new.kinematic_variables) == exp_kin, "kinematic_variables_not_renamed",
                  f"{label}: kinematic variables after rename_symbols({_short(renames)}) != originals with the map applied "
                  f"(keys {sorted(map(str, set(new.kinematic_variables) ^ set(exp_kin)))[:4]})", None, feats)
        exp_par_keys = {smap.get(k, k) for k in self.parameter_defaults}
        rec.check(set(new.parameter_defaults) == exp_par_keys, "parameters_not_renamed",
                  f"{label}: parameter keys after rename_symbols({_short(renames)}): {sorted(map(str, set(new.parameter_defaults) ^ exp_par_keys))[:4]} differ", None, feats)
        # values carried over (for merges: one of the merged values)
        for k, v in self.parameter_defaults.items():
            nk = smap.get(k, k)
            cands = [vv for kk, vv in self.parameter_defaults.items() if smap.get(kk, kk) == nk]
            if nk in new.parameter_defaults:
                rec.check(new.parameter_defaults[nk] in cands, "parameter_value_lost", f"{label}: default of {nk} is {new.parameter_defaults[nk]}, not one of {cands}", None, feats)
        # assumptions preserved, unrelated symbols untouched
        new_syms = all_symbols(new)
        bad = [str(s) for s in syms if s.name not in renames and s not in new_syms]
        rec.check(not bad, "unrelated_symbol_changed", f"{label}: symbols not named in the map disappeared/changed: {bad[:4]}", None, feats)
        bad = [(str(s), renames[s.name]) for s in syms if s.name in renames and sp.Symbol(renames[s.name], **s.assumptions0) not in new_syms
               and any(s in e.free_symbols for e in [self.intensity, *self.amplitudes.values(), *self.kinematic_variables.values()])]
        rec.check(not bad, "assumptions_changed", f"{label}: renamed symbols do not carry the original assumptions: {bad[:3]}", None, feats)
        rec.check(new.reaction_info == self.reaction_info, "reaction_info_changed", f"{label}: reaction_info changed", None, feats)
        if ctx.get("closure", True):
            judge_closure(rec, new, feats, label + " (renamed)")

    attach(HelicityModel, "rename_symbols", hook="HelicityModel.rename_symbols", rec=rec, snapshot=snapshot, ensure=ensure)


def _short(r):
    s = str(dict(list(r.items())[:3]))
    return s if len(r) <= 3 else s[:-1] + ", ...}"


def make_map(kind, model, rng):
    import sympy as sp
    P = [s for s in model.parameter_defaults if isinstance(s, sp.Symbol)]
    K = list(model.kinematic_variables)
    coeffs = [s for s in P if s.name.startswith(("C_", "H_"))]
    by_assump = {}
    for s in P:
        by_assump.setdefault(tuple(sorted(s.assumptions0.items())), []).append(s)
    same = [v for v in by_assump.values() if len(v) >= 2]
    pick = lambda lst, n: [lst[i] for i in rng.choice(len(lst), min(n, len(lst)), replace=False)]  # noqa: E731
    if kind == "injective":
        return {s.name: f"p{k}_renamed" for k, s in enumerate(pick(P, 3))}
    if kind == "merge":
        if not same:
            return None
        a, b = pick(same[int(rng.integers(len(same)))], 2)
        return {a.name: b.name}
    if kind == "chain":
        if not same:
            return None
        grp = same[int(rng.integers(len(same)))]
        a, b = pick(grp, 2)
        return {a.name: b.name, b.name: "c_fresh"}
    if kind == "swap":
        if not same:
            return None
        a, b = pick(same[int(rng.integers(len(same)))], 2)
        return {a.name: b.name, b.name: a.name}
    if kind == "kinematic_fresh":
        return {s.name: f"kin{k}" for k, s in enumerate(pick(K, 3))}
    if kind == "empty":
        return {}
    if kind == "unknown":
        return {"no_such_symbol": "x", **({P[0].name: "known_renamed"} if P else {})}
    if kind == "all_parameters":
        return {s.name: f"par{k}" for k, s in enumerate(P)}
    if kind == "mass_everywhere":
        ms = [s for s in K if s.name.startswith("m_")] + [s for s in P if s.name.startswith("m_")]
        return {s.name: f"mass{k}" for k, s in enumerate(pick(ms, 2))} if ms else None
    if kind == "repeat_inverse":
        return {s.name: f"tmp{k}" for k, s in enumerate(pick(coeffs or P, 2))}
    return None


def run_case(case, rec, ctx):
    import sympy as sp
    from vmon.numeval import ModelEvaluator
    from vmon.props.c01 import make_reaction
    from vmon.workloads import configs as C
    from vmon.workloads import reactions as R
    from vmon.workloads.events import gen_events
    rng = np.random.default_rng([case["seed"]])
    reaction, rname = make_reaction(case["reaction"])
    if reaction is None:
        rec.note("synthetic_reaction_not_constructible")
        return
    if case["cfg_index"] == 0:
        cfg = C.default_config()
    else:
        cfg = C.draw_config(np.random.default_rng([case["seed"], case["cfg_index"]]), reaction, allow_align=False)
        if case["cfg_index"] in (1, 3) and len(reaction.final_state) == 3 and C.dpd_cost(reaction) <= (15000 if ctx["tier"] == "quick" else 100000):
            cfg["align"] = "dpd" + str(1 + case["seed"] % 3)   # (high-spin DPD sums take minutes to evaluate: skipped beyond the cost bound)
        if cfg["align"] == "axisangle":
            cfg["align"] = "none"
        if cfg["align"].startswith("dpd"):
            reaction = C.prepare_reaction(reaction, cfg)
            # stable final-state masses become parameters that occur inside the zeta-angle definitions
            cfg["stable"] = sorted(reaction.final_state) if case["seed"] % 3 else [sorted(reaction.final_state)[0]]
            cfg["scalar_mass"] = bool(case["seed"] % 2)
        if not cfg["dynamics"]:
            cfg["dynamics"] = [{"select": "name", "target": n, "builder": "bw"} for n in C.resonances(reaction)]
        cfg["permutate"] = False
    r2, b = C.build(reaction, cfg)
    model = b.formulate()
    renames = make_map(case["map"], model, rng)
    if renames is None:
        rec.note(f"map_not_applicable:{case['map']}")
        return
    ctx["feats"] = {"map": case["map"], "formalism": reaction.formalism, "align": cfg["align"], "n_renamed": len(renames)}
    ctx["label"] = f"{rname} [{C.config_key(cfg)}] map={case['map']}"
    label = ctx["label"]
    ctx["closure"] = True
    new = model.rename_symbols(renames)          # judged by the contract
    if case["map"] == "empty":
        rec.check(new == model, "empty_map", f"{label}: rename_symbols({{}}) != original", None, ctx["feats"])
    if case["map"] == "repeat_inverse":
        back = new.rename_symbols({v: k for k, v in renames.items()})
        same_order = all(list(getattr(back, a)) == list(getattr(model, a)) for a in ("amplitudes", "parameter_defaults", "kinematic_variables", "components"))
        ok_back = back == model
        if not ok_back and same_order:
            # SymPy re-canonicalises signs when a renamed symbol sorts differently (Abs(-x) -> Abs(x), -a/(−b) -> a/b): entries that differ
            # structurally must still be the same function - compared numerically at a random point
            from vmon.numeval import eval_expr
            ok_back = True
            for attr in ("amplitudes", "parameter_defaults", "kinematic_variables", "components"):
                for k_, v0 in getattr(model, attr).items():
                    v1 = getattr(back, attr)[k_]
                    if v0 == v1:
                        continue
                    if not (isinstance(v0, sp.Basic) and isinstance(v1, sp.Basic)):
                        ok_back = False
                        continue
                    fs_ = sorted((v0.free_symbols | v1.free_symbols), key=str)
                    vals_ = {s_: (complex(rng.normal(), rng.normal()) if s_.name.startswith(("C_", "H_")) else float(rng.uniform(0.3, 2.5))) for s_ in fs_
                             if isinstance(s_, sp.Symbol)}
                    try:
                        a_, b_ = np.asarray(eval_expr(v0, vals_)), np.asarray(eval_expr(v1, vals_))
                        ok_back &= bool(np.allclose(a_, b_, rtol=1e-10, atol=1e-300, equal_nan=True))
                        rec.note("inverse_rename:structural_difference_numerically_equal")
                    except Exception:  # noqa: BLE001
                        ok_back = False
        rec.check(ok_back and same_order, "inverse_rename", f"{label}: renaming and renaming back does not give the original model", None, ctx["feats"])
        again = new.rename_symbols(renames)
        rec.check(again == new, "repeated_rename", f"{label}: applying the same rename twice changes the model again", None, ctx["feats"])
        also = new.rename_symbols(list({v: v + "_2" for v in renames.values()}.items()))   # iterable-of-pairs form
        rec.check(all(sp.Symbol(v + "_2") in {sp.Symbol(s.name) for s in also.parameter_defaults} for v in renames.values()), "pairs_form",
                  f"{label}: rename_symbols given as iterable of pairs did not rename", None, ctx["feats"])
    # numeric equivalence through the full pipeline
    pv = C.random_parameters(model, rng)
    syms = all_symbols(model)
    smap = {s: sp.Symbol(renames[s.name], **s.assumptions0) for s in syms if s.name in renames}
    if case["map"] in ("merge", "chain"):
        # coupled parameters must be given one value in the original as well
        groups: dict = {}
        for s in pv:
            groups.setdefault(smap.get(s, s), []).append(s)
        for tgt, members in groups.items():
            if len(members) > 1:
                for mmbr in members:
                    pv[mmbr] = pv[members[0]]
    pv_new = {smap.get(s, s): v for s, v in pv.items()}
    fm = R.final_state_masses(r2)
    ids = sorted(fm)
    ev = gen_events(R.initial_mass(r2), [fm[i] for i in ids], 8, rng, ids=ids)
    try:
        try:
            I0, _ = ModelEvaluator(model, pv)(ev)
        except Exception:  # noqa: BLE001
            if case["map"] not in ("merge", "chain"):
                raise
            I0 = np.array([np.nan])   # the *original* is singular once the two parameters are given one value
        if case["map"] in ("merge", "chain") and not np.isfinite(np.asarray(I0)).all():
            # a degenerate coupling: with the two parameters set equal the *original* model is singular (e.g. a stable
            # daughter mass merged with its parent's mass: rho(m0^2) = 0 in the width normalisation); the renamed model
            # then contains zoo symbolically.  Consistent, but there is no finite intensity to compare.
            rec.note("degenerate_merge:original_not_finite_at_coupled_values")
            raise _Skip
        I1, _ = ModelEvaluator(new, {k: v for k, v in pv_new.items() if k in new.parameter_defaults})(ev)
        rec.hit("pipeline:renamed")
        ok = np.allclose(I0, I1, rtol=1e-10, atol=1e-300, equal_nan=True)
        rec.check(bool(ok), "renamed_intensity_differs", f"{label}: renamed model evaluates to {np.asarray(I1)[:2]} but the original to {np.asarray(I0)[:2]} at the carried-over values",
                  {"renames": renames}, ctx["feats"])
    except _Skip:
        pass
    except Exception as exc:  # noqa: BLE001
        rec.check(False, "renamed_not_evaluable", f"{label}: renamed model cannot be evaluated: {type(exc).__name__}: {str(exc)[:200]}", {"renames": renames}, ctx["feats"])
    # the two models are independent objects: assigning a parameter value in one must not show up in the other
    try:
        if new is model:          # nothing was renamed and the library handed back the same object: nothing to alias
            raise StopIteration
        k_old = next(iter(model.parameter_defaults))
        k_new = smap.get(k_old, k_old)
        v_old, v_new = model.parameter_defaults[k_old], new.parameter_defaults[k_new]
        new.parameter_defaults[k_new] = 123.456
        leaked_to_original = model.parameter_defaults[k_old] != v_old
        new.parameter_defaults[k_new] = v_new
        model.parameter_defaults[k_old] = 654.321
        leaked_to_renamed = new.parameter_defaults[k_new] != v_new
        model.parameter_defaults[k_old] = v_old
        rec.hit("aliasing:parameter_defaults")
        rec.check(not leaked_to_original and not leaked_to_renamed, "shared_parameter_values",
                  f"{label}: the renamed model and the original share their parameter values (assignment in the renamed model changed the original: "
                  f"{leaked_to_original}; assignment in the original changed the renamed model: {leaked_to_renamed})", {"renames": renames}, ctx["feats"])
    except (StopIteration, KeyError):
        pass
    multi = sum(1 for s in smap if sum(s in e.free_symbols for e in [model.intensity, *model.amplitudes.values(), *model.kinematic_variables.values(), *model.components.values()]) >= 2
                or s in model.kinematic_variables)
    rec.case((rname, C.config_key(cfg), case["map"]), multi >= 1, map=case["map"], formalism=reaction.formalism, align=cfg["align"])
    rec.sample(f"{case['map']}", {"reaction": R.reaction_summary(reaction), "config": C.config_key(cfg), "renames": dict(list(renames.items())[:4]), "n_renames": len(renames)})


META = {
    "technique": "snapshot/ensure contract on HelicityModel.rename_symbols (independent application of the symbol map to every attribute, C01 closure on the result, assumptions, original untouched) plus numeric comparison of original and renamed model through the full evaluation pipeline",
    "level_text": "Ten kinds of rename maps (injective, merging equal-assumption parameters, chains a->b b->c, swaps, kinematic variables to fresh names, empty, unknown names, all parameters, repeat/inverse incl. the iterable-of-pairs form, mass symbols occurring in both dictionaries) are applied to models of 12 fixtures (thorough: all) under several configurations incl. dynamics, stable masses and DPD, and to synthetic reactions; every call is judged structurally by the contract and numerically at 8 events with carried-over (for merges: coupled) parameter values. After every rename a parameter value is assigned in each model and must not appear in the other.",
    "level_note": "Merges between symbols with different assumptions and renaming a kinematic variable onto an existing name are excluded: the statement's clauses cannot all hold for them.",
}
