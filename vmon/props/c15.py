"""C15 — pickle round trip of a model (or of any library expression) is the identity.

Differential observation: the object before pickling vs the object after loading, in the
same process (protocols 2..5) and in a fresh process started with a different hash seed;
compared by ==, per attribute, by srepr and by numeric evaluation.
"""
from __future__ import annotations

import hashlib
import json
import os
import pickle
import subprocess
import sys
import tempfile
from pathlib import Path

import numpy as np

ID = "C15"
LEVEL = "exploration"
RULE = ("case = one expression class (all generated argument shapes + harvested implementation nodes) or one model "
        "(fixture or synthetic reaction x builder configuration incl. aligned models and every dynamics choice); each "
        "object is round-tripped with pickle protocols 2..5 in-process and once through a fresh process with another "
        "PYTHONHASHSEED; distinct = (class or reaction/config, argument shape); non-trivial iff the object has a nested "
        "ampform-class argument, a non-SymPy attribute, or is a model with >= 2 amplitudes")
ASSUMPTIONS = ["srepr is a faithful structural fingerprint", "numeric equality via route A-fast at 4 events / 5 points"]
FLOORS = {"quick": {"evaluations": 1500, "distinct_nontrivial": 100, "hooks": ["pickle.same_process", "pickle.fresh_process"]},
          "thorough": {"evaluations": 4000, "distinct_nontrivial": 200, "hooks": ["pickle.same_process", "pickle.fresh_process"]}}
CASE_TIMEOUT = {"quick": 500, "thorough": 1800}
CONFIGS = ["default", "stable_scalar", "couplings", "bw", "bw_ff", "analytic", "axisangle", "dpd1", "dpd3_bw_ff"]
QUICK_MODELS = [("jpsi_gamma_pi0_pi0__f0.hel", "default"), ("jpsi_gamma_pi0_pi0__f0.can", "bw_ff"), ("jpsi_p_pbar_pi0__n1440.hel", "axisangle"),
                ("lambdac_p_km_pip__l1520.hel", "dpd1"), ("lambdac_p_km_pip__l1520_d1232_kst.hel", "dpd3_bw_ff"), ("jpsi_kp_km_pip_pim__phi_f0.hel", "analytic"),
                ("jpsi_k0_sigmap_pbar__sigma1750.can", "couplings"), ("etac_lambda_lambdabar.hel", "stable_scalar"), ("tau_nu_pim_pi0__rho.hel", "axisangle"),
                ("d0_km_pip_pi0__kst_rho.hel", "bw"), ("jpsi_pi0_pip_pim__rho.can", "stable_scalar"), ("psi2s_gamma_gamma_jpsi__chic1.hel", "default")]


def plan(tier, seed):
    from vmon.workloads.exprs import discover_classes
    from vmon.workloads.reactions import fixture_names
    cases = [{"kind": "class", "key": k, "cost": 2.0} for k in sorted(discover_classes())]
    cases.append({"kind": "helpers", "cost": 3.0})
    if tier == "quick":
        models = QUICK_MODELS
    else:
        rng = np.random.default_rng([seed, 15])
        names = fixture_names()
        models = list(QUICK_MODELS)
        for n in names:
            models.append((n, CONFIGS[int(rng.integers(len(CONFIGS)))]))
    for fx, cfg in models:
        cases.append({"kind": "model", "fixture": fx, "config": cfg, "cost": 15.0 if cfg.startswith(("axis", "dpd")) else 6.0})
    for k in range(6 if tier == "quick" else 40):
        cases.append({"kind": "synth_model", "k": k, "config": CONFIGS[k % 6], "cost": 6.0})
    return cases


def setup_worker(rec, ctx):
    from vmon.workloads import exprs
    ctx["classes"] = exprs.discover_classes()
    ctx["pool"] = exprs.Pool()
    ctx["generated"] = exprs.generate_instances(ctx["classes"], ctx["pool"])


def dig(x) -> str:
    import sympy as sp
    return hashlib.sha256(sp.srepr(x).encode()).hexdigest()[:16]


def model_digests(m) -> dict:
    import sympy as sp
    return {
        "intensity": dig(m.intensity),
        "amplitudes": hashlib.sha256(repr([(sp.srepr(k), sp.srepr(v)) for k, v in m.amplitudes.items()]).encode()).hexdigest()[:16],
        "parameter_defaults": hashlib.sha256(repr([(sp.srepr(k), repr(v)) for k, v in m.parameter_defaults.items()]).encode()).hexdigest()[:16],
        "kinematic_variables": hashlib.sha256(repr([(sp.srepr(k), sp.srepr(v)) for k, v in m.kinematic_variables.items()]).encode()).hexdigest()[:16],
        "components": hashlib.sha256(repr([(k, sp.srepr(v)) for k, v in m.components.items()]).encode()).hexdigest()[:16],
    }


def configure(builder, reaction, cfg):
    from ampform.dynamics.builder import (create_analytic_breit_wigner, create_relativistic_breit_wigner,
                                          create_relativistic_breit_wigner_with_ff)
    from ampform.helicity.align.axisangle import AxisAngleAlignment
    from ampform.helicity.align.dpd import DalitzPlotDecomposition
    names = reaction.get_intermediate_particles().names
    if cfg == "stable_scalar":
        builder.config.stable_final_state_ids = list(reaction.final_state)
        builder.config.scalar_initial_state_mass = True
    elif cfg == "couplings":
        builder.config.use_helicity_couplings = True
    elif cfg in ("bw", "bw_ff", "analytic", "dpd3_bw_ff"):
        fn = {"bw": create_relativistic_breit_wigner, "bw_ff": create_relativistic_breit_wigner_with_ff,
              "analytic": create_analytic_breit_wigner, "dpd3_bw_ff": create_relativistic_breit_wigner_with_ff}[cfg]
        for n in names:
            builder.dynamics.assign(n, fn)
    if cfg == "axisangle":
        builder.config.spin_alignment = AxisAngleAlignment()
    elif cfg == "dpd1":
        builder.config.spin_alignment = DalitzPlotDecomposition(1)
    elif cfg == "dpd3_bw_ff":
        builder.config.spin_alignment = DalitzPlotDecomposition(3)


def run_child(payload: dict, hashseed: str, timeout=900) -> dict:
    d = tempfile.mkdtemp(prefix="vmon-c15-")
    try:
        inp, out = Path(d) / "in.pkl", Path(d) / "out.json"
        inp.write_bytes(pickle.dumps(payload))
        env = dict(os.environ, PYTHONHASHSEED=hashseed)
        r = subprocess.run([sys.executable, "-W", "ignore", "-m", "vmon.props.c15_child", str(inp), str(out)],
                           cwd=str(Path(__file__).resolve().parents[2]), env=env, capture_output=True, text=True, timeout=timeout)
        if r.returncode != 0 or not out.exists():
            return {"error": (r.stderr or r.stdout)[-1500:]}
        return json.loads(out.read_text())
    finally:
        import shutil
        shutil.rmtree(d, ignore_errors=True)


def _same_process(rec, obj, label, feats, nontrivial, key):
    import sympy as sp
    rec.hit("pickle.same_process")
    for proto in (2, 3, 4, 5):
        try:
            back = pickle.loads(pickle.dumps(obj, protocol=proto))
        except Exception as exc:  # noqa: BLE001
            rec.check(False, "pickle_raises", f"{label}: pickle protocol {proto} raised {type(exc).__name__}: {exc}", {"obj": sp.srepr(obj)[:400]}, feats)
            continue
        ok = back == obj and type(back) is type(obj) and hash(back) == hash(obj)
        ok_repr = sp.srepr(back) == sp.srepr(obj)
        rec.check(ok and ok_repr, "roundtrip_differs",
                  f"{label}: loads(dumps(x, protocol={proto})) != x: {sp.srepr(back)[:200]} vs {sp.srepr(obj)[:200]}",
                  {"before": sp.srepr(obj)[:500], "after": sp.srepr(back)[:500]}, feats)
    rec.case(key, nontrivial)


def run_case(case, rec, ctx):
    import sympy as sp
    from vmon.workloads import exprs
    rng = np.random.default_rng([ctx["seed"], 15, case["idx"]])
    hashseed = str(int(rng.integers(1, 2 ** 31)))
    if case["kind"] in ("class", "helpers"):
        if case["kind"] == "class":
            insts = [(sh, i) for k, sh, i in ctx["generated"] if k == case["key"] and not isinstance(i, Exception)]
            name = ctx["classes"][case["key"]].__name__
            extra = []
            for sh, i in insts[:4]:
                for node, depth in exprs.harvest(i).items():
                    if depth > 0 and type(node).__name__.startswith("_"):
                        extra.append((f"harvested:{type(node).__name__}", node))
            insts += extra[:12]
            cls_ = ctx["classes"][case["key"]]
            import dataclasses as _dc
            if _dc.is_dataclass(cls_) and not cls_.__name__.startswith("_"):
                # independently drawn argument shapes and non-SymPy attribute values (thorough: 40 per class)
                r2 = np.random.default_rng([ctx["seed"], 15, 7, case["idx"]])
                for k_ in range(4 if ctx["tier"] == "quick" else 40):
                    try:
                        insts.append((f"random/{k_}", exprs.random_instance(cls_, ctx["pool"], r2)))
                    except Exception:  # noqa: BLE001, S112
                        continue
            if name == "UnevaluatedExpression":
                from vmon.workloads.deprecated_sample import DeprecatedSquare
                insts.append(("deprecated", DeprecatedSquare(ctx["pool"].x + 1, name="sq")))
                insts.append(("deprecated-nested", DeprecatedSquare(ctx["pool"].D.BreakupMomentumSquared(ctx["pool"].x + 4, ctx["pool"].y / 4, ctx["pool"].z / 4))))
        else:
            insts = [(f"{k}:{sh}", i) for k, sh, i in exprs.helper_instances(ctx["pool"])]
            name = "helpers"
        if not insts:
            rec.note(f"no_instances:{name}")
            return
        batch = []
        for sh, inst in insts:
            nested = any(exprs.is_ampform_instance(n) for a in inst.args for n in sp.preorder_traversal(a))
            has_extra = bool(getattr(type(inst), "__slots__", ()))
            feats = {"cls": type(inst).__name__, "shape": sh, "nested": nested}
            key = (type(inst).__name__, sh.split("/")[0])
            rec.sample(f"{type(inst).__name__}", sp.srepr(inst)[:300])
            _same_process(rec, inst, type(inst).__name__, feats, nested or has_extra, key)
            entry = {"pickle": pickle.dumps(inst), "srepr": sp.srepr(inst), "label": f"{type(inst).__name__}:{sh}"}
            try:
                env_seed = int(rng.integers(1 << 30))
                env = exprs.random_env(inst, np.random.default_rng(env_seed))
                entry["value"] = exprs.numeric(inst, env)
                entry["env_seed"] = env_seed
            except Exception:  # noqa: BLE001
                entry["value"] = None
            batch.append(entry)
        res = run_child({"kind": "exprs", "items": batch}, hashseed)
        rec.hit("pickle.fresh_process")
        if "error" in res:
            rec.check(False, "fresh_process_load", f"{name}: loading in a fresh process failed: {res['error'][-400:]}", None, {"cls": name})
            return
        for entry, got in zip(batch, res["items"]):
            feats = {"cls": entry["label"].split(":")[0], "cross_process": True}
            rec.check(got.get("srepr") == entry["srepr"], "roundtrip_differs",
                      f"{entry['label']}: object loaded in a fresh process (PYTHONHASHSEED={hashseed}) differs: {str(got.get('srepr'))[:200]} vs {entry['srepr'][:200]}",
                      {"before": entry["srepr"][:500], "after": str(got.get("srepr"))[:500], "error": got.get("error")}, feats)
            if "hash_consistent" in got:
                rec.hit("fresh_process.hash_consistency")
                rec.check(bool(got["hash_consistent"]), "stale_hash_after_load",
                          f"{entry['label']}: the object loaded in a fresh process equals an object constructed there but hashes differently / is not found in a set "
                          f"(PYTHONHASHSEED={hashseed})", None, feats)
            if entry["value"] is not None and got.get("value") is not None:
                rec.check(exprs.same(np.asarray(got["value_re"]) + 1j * np.asarray(got["value_im"]), entry["value"]), "roundtrip_value",
                          f"{entry['label']}: numeric value after a fresh-process load differs", None, feats)
        return
    # ------------------------------------------------------------------ models
    from ampform import get_builder
    from ampform.helicity.align.dpd import relabel_edge_ids
    from vmon.numeval import eval_model
    from vmon.workloads import reactions as R
    from vmon.workloads.events import gen_events
    cfg = case["config"]
    if case["kind"] == "model":
        r = R.load_fixture(case["fixture"])
        label = f"{case['fixture']}/{cfg}"
    else:
        r = None
        for attempt in range(20):
            spec = R.synth_spec(np.random.default_rng([ctx["seed"], 15, case["k"], attempt]), formalism=["helicity", "canonical-helicity"][case["k"] % 2], max_transitions=150)
            r = R.build_synth(spec)
            if r is not None:
                break
        label = f"synth{case['k']}/{cfg}"
        if r is None:
            rec.note("synth_failed")
            return
    tops = R.topologies_of(r)
    if cfg.startswith("dpd"):
        if len(r.final_state) != 3:
            cfg = "bw_ff"
        else:
            r = relabel_edge_ids(r)
    if cfg == "axisangle" and len(r.final_state) < 3:
        cfg = "default"
    b = get_builder(r)
    try:
        configure(b, r, cfg)
        model = b.formulate()
    except Exception as exc:  # noqa: BLE001
        rec.note(f"formulate_raised:{type(exc).__name__}")  # judged by C01/C05, not here
        return
    feats = {"model": label, "config": cfg, "n_amplitudes": len(model.amplitudes)}
    rec.sample(f"model:{cfg}", {"reaction": R.reaction_summary(r), "config": cfg})
    rec.hit("pickle.same_process")
    before = model_digests(model)
    for proto in (2, 5):
        try:
            back = pickle.loads(pickle.dumps(model, protocol=proto))
        except Exception as exc:  # noqa: BLE001
            rec.check(False, "pickle_raises", f"{label}: pickling the model (protocol {proto}) raised {type(exc).__name__}: {exc}", None, feats)
            continue
        after = model_digests(back)
        diff = [k for k in before if before[k] != after[k]]
        eq = {a: getattr(back, a) == getattr(model, a) for a in ("intensity", "amplitudes", "parameter_defaults", "kinematic_variables", "components", "reaction_info")}
        order = all(list(getattr(back, a)) == list(getattr(model, a)) for a in ("amplitudes", "parameter_defaults", "kinematic_variables", "components"))
        first = ""
        if diff:
            a = diff[0]
            if a in ("kinematic_variables", "amplitudes", "components"):
                for k_, v in getattr(model, a).items():
                    v2 = dict(getattr(back, a)).get(k_)
                    if v2 is None or sp.srepr(v2) != sp.srepr(v):
                        first = f"{a}[{k_}]: {sp.srepr(v)[:150]} -> {sp.srepr(v2)[:150] if v2 is not None else None}"
                        break
        rec.check(not diff and all(eq.values()) and order and back == model, "model_roundtrip_differs",
                  f"{label}: loads(dumps(model)) differs in {diff or [k for k, v in eq.items() if not v] or 'key order'} {first}",
                  {"attributes_differ": diff, "eq": eq, "first": first}, feats)
    rec.case(("model", label), len(model.amplitudes) >= 2)
    # numeric + fresh process
    m0 = R.initial_mass(r)
    fm = R.final_state_masses(r)
    ids = sorted(fm)
    ev = gen_events(m0, [fm[i] for i in ids], 4, rng, ids=ids)
    pv = {s: complex(rng.normal(), rng.normal()) for s in model.parameter_defaults if s.name.startswith(("C_", "H_"))}
    try:
        val, _ = eval_model(model, ev, pv)
    except Exception as exc:  # noqa: BLE001
        rec.note(f"model_eval_raised:{type(exc).__name__}")
        val = None
    res = run_child({"kind": "model", "pickle": pickle.dumps(model), "events": ev, "params": {k.name: v for k, v in pv.items()},
                     "evaluate": val is not None}, hashseed, timeout=1500)
    rec.hit("pickle.fresh_process")
    if "error" in res:
        rec.check(False, "fresh_process_load", f"{label}: loading the model in a fresh process failed: {res['error'][-400:]}", None, feats)
        return
    diff = [k for k in before if before[k] != res["digests"].get(k)]
    rec.check(not diff, "model_roundtrip_differs", f"{label}: model loaded in a fresh process (PYTHONHASHSEED={hashseed}) differs in {diff}",
              {"attributes_differ": diff}, {**feats, "cross_process": True})
    if res.get("hash_checked"):
        rec.hit("fresh_process.hash_consistency")
        rec.check(res.get("hash_inconsistent", 0) == 0, "stale_hash_after_load",
                  f"{label}: {res.get('hash_inconsistent')} of {res.get('hash_checked')} expressions of the model loaded in a fresh process equal a freshly constructed "
                  f"expression but hash differently (PYTHONHASHSEED={hashseed})", None, {**feats, "cross_process": True})
    if val is not None and res.get("value_re") is not None:
        got = np.asarray(res["value_re"]) + 1j * np.asarray(res["value_im"])
        rec.check(bool(np.allclose(got, val, rtol=1e-10, atol=1e-300, equal_nan=True)), "roundtrip_value",
                  f"{label}: intensity of the model loaded in a fresh process = {got[:2]} vs {np.asarray(val)[:2]}", None, {**feats, "cross_process": True})


META = {
    "technique": "differential runtime observation of pickle round trips (same process, protocols 2-5; fresh process with another hash seed) compared by ==, hash, srepr digests per attribute and numeric evaluation, over the introspected expression-class population and a model population",
    "level_text": "Every instance of the 47 introspected expression classes (all argument shapes, harvested implementation nodes, a deprecated UnevaluatedExpression subclass) and a population of models (12 fixture/configuration pairs quick, all 70 fixtures thorough, plus synthetic reactions; configurations incl. stable/scalar masses, helicity couplings, three Breit-Wigner builders, axis-angle, DPD) is pickled and loaded in-process and in a fresh interpreter with a different PYTHONHASHSEED; equality, hash, srepr per attribute, dictionary order and numeric values (4 events) are compared. The fresh process also reconstructs every loaded object bottom-up and requires equal hash and set membership; random instances, shaped array slices and the toy classes of C14 are included.",
    "level_note": "pickle itself, srepr faithfulness and qrules' ReactionInfo equality are trusted; models whose formulation raises are judged by C01/C05, not here.",
}
