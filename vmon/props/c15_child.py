"""Fresh-process side of C15: load pickles, report srepr and numeric values."""
from __future__ import annotations

import json
import pickle
import sys


def main() -> int:
    from vmon import sut  # noqa: F401
    import numpy as np
    import sympy as sp
    from vmon.workloads import exprs

    payload = pickle.loads(open(sys.argv[1], "rb").read())
    out: dict = {}
    if payload["kind"] == "exprs":
        items = []
        for entry in payload["items"]:
            r: dict = {}
            try:
                obj = pickle.loads(entry["pickle"])
                r["srepr"] = sp.srepr(obj)
                try:
                    fresh = exprs.rebuild(obj)
                    if fresh == obj:
                        r["hash_consistent"] = bool(hash(fresh) == hash(obj) and obj in {fresh} and fresh in {obj})
                except Exception as exc:  # noqa: BLE001
                    r["rebuild_error"] = f"{type(exc).__name__}: {exc}"
                if entry.get("value") is not None:
                    env = exprs.random_env(obj, np.random.default_rng(entry["env_seed"]))
                    v = np.asarray(exprs.numeric(obj, env)).astype(complex)
                    r["value"] = True
                    r["value_re"] = v.real.tolist()
                    r["value_im"] = v.imag.tolist()
            except Exception as exc:  # noqa: BLE001
                r["error"] = f"{type(exc).__name__}: {exc}"
            items.append(r)
        out["items"] = items
    else:
        from vmon.numeval import eval_model
        from vmon.props.c15 import model_digests
        model = pickle.loads(payload["pickle"])
        out["digests"] = model_digests(model)
        bad = 0
        n_checked = 0
        for expr in list(model.amplitudes.values())[:40] + list(model.kinematic_variables.values())[:20]:
            try:
                fresh = exprs.rebuild(expr)
            except Exception:  # noqa: BLE001, S112
                continue
            if fresh == expr:
                n_checked += 1
                bad += not (hash(fresh) == hash(expr) and expr in {fresh})
        out["hash_checked"], out["hash_inconsistent"] = n_checked, bad
        if payload.get("evaluate"):
            try:
                pv = {s: payload["params"][s.name] for s in model.parameter_defaults if s.name in payload["params"]}
                val, _ = eval_model(model, payload["events"], pv)
                val = np.asarray(val).astype(complex)
                out["value_re"] = val.real.tolist()
                out["value_im"] = val.imag.tolist()
            except Exception as exc:  # noqa: BLE001
                out["eval_error"] = f"{type(exc).__name__}: {exc}"
                out["value_re"] = None
    open(sys.argv[2], "w").write(json.dumps(out))
    return 0


if __name__ == "__main__":
    sys.exit(main())
