"""Client process for C06: executes one (configure, formulate) history and logs model digests.

usage: python -m vmon.props.c06_child SPEC.json OUT.jsonl
"""
from __future__ import annotations

import hashlib
import json
import os
import sys


def h(obj) -> str:
    return hashlib.sha256(repr(obj).encode()).hexdigest()[:16]


def main() -> int:
    spec = json.loads(open(sys.argv[1]).read())
    out = open(sys.argv[2], "a", buffering=1)
    from vmon import sut  # noqa: F401
    import sympy as sp
    from ampform import get_builder
    from ampform.helicity.align import NoAlignment
    from ampform.helicity.align.axisangle import AxisAngleAlignment
    from ampform.helicity.align.dpd import DalitzPlotDecomposition
    from vmon.workloads import configs as C
    from vmon.workloads import reactions as R
    from vmon.props.c01 import make_reaction

    reaction, rname = make_reaction(spec["reaction"])
    if spec.get("relabel"):
        from ampform.helicity.align.dpd import relabel_edge_ids
        reaction = relabel_edge_ids(reaction)
    builders = [get_builder(reaction) for _ in range(spec["n_builders"])]

    def model_digests(m):
        return {
            "intensity": h(sp.srepr(m.intensity)),
            "amplitudes": h([(sp.srepr(k), sp.srepr(v)) for k, v in m.amplitudes.items()]),
            "parameter_defaults": h([(sp.srepr(k), repr(v)) for k, v in m.parameter_defaults.items()]),
            "kinematic_variables": h([(sp.srepr(k), sp.srepr(v)) for k, v in m.kinematic_variables.items()]),
            "components": h([(k, sp.srepr(v)) for k, v in m.components.items()]),
            "key_order": h([list(map(str, m.amplitudes)), list(map(str, m.parameter_defaults)), list(map(str, m.kinematic_variables)), list(m.components)]),
        }

    permutated = {}

    def config_key(b):
        cfg = b.config
        st = None if cfg.stable_final_state_ids is None else sorted(cfg.stable_final_state_ids)
        nm = b.naming
        dyn = sorted((f"{d.parent.particle.name}[{d.parent.id}]->{d.children[0].id},{d.children[1].id}:{float(d.parent.spin_projection)},{float(d.children[0].spin_projection)},{float(d.children[1].spin_projection)}:{d.interaction.l_magnitude}",
                      (getattr(fn, "__qualname__", None) or type(fn).__qualname__) + ":" + ",".join(
                          str(getattr(getattr(fn, "__self__", fn), a, "")) for a in ("phsp_factor", "form_factor", "energy_dependent_width")))
                     for d, fn in b.dynamics.items())
        # the user's configuration of the adapter = whether permutate_registered_topologies() was requested; topologies
        # that formulate() registers by itself (symmetrised chains) are not configuration
        tops = ["permutated"] if permutated.get(id(b)) else []
        al = repr(cfg.spin_alignment)
        if " object at " in al:
            al = type(cfg.spin_alignment).__name__
        return h([st, cfg.scalar_initial_state_mass, cfg.use_helicity_couplings, al,
                  nm.insert_parent_helicities, nm.insert_child_helicities, getattr(nm, "insert_ls_combinations", None), dyn, tops]), \
            {"stable": st, "scalar": cfg.scalar_initial_state_mass, "couplings": cfg.use_helicity_couplings, "align": al,
             "naming": [nm.insert_parent_helicities, nm.insert_child_helicities, getattr(nm, "insert_ls_combinations", None)],
             "permutated": bool(tops), "n_dynamics_assigned": sum(1 for _, fn in b.dynamics.items() if getattr(fn, "__name__", "") != "create_non_dynamic")}

    # snapshot monitor: objects handed out by define_symbols / functools caches must not change behind the caller's back
    import ampform.helicity.align.dpd as DPD
    handed_out = []
    for cls in (DalitzPlotDecomposition, AxisAngleAlignment, NoAlignment):
        orig = cls.__dict__["define_symbols"]
        fn = orig.__func__ if isinstance(orig, staticmethod) else orig

        def wrapped(*a, _fn=fn, _cls=cls, **k):
            res = _fn(*a, **k)
            handed_out.append((_cls.__name__, res, h(sorted((sp.srepr(kk), sp.srepr(vv)) for kk, vv in res.items()))))
            return res
        setattr(cls, "define_symbols", staticmethod(wrapped) if isinstance(orig, staticmethod) else wrapped)

    def cache_digest():
        out_ = []
        for ref in (1, 2, 3):
            try:
                if DPD._formulate_aligned_amplitude.cache_info().currsize == 0:
                    continue
                key_hit = DPD._formulate_aligned_amplitude.cache_info().hits
                expr, defs = DPD._formulate_aligned_amplitude(reaction, ref)  # served from the cache if present
                out_.append((ref, h(sp.srepr(expr)), h(sorted((sp.srepr(kk), sp.srepr(vv)) for kk, vv in defs.items()))))
            except Exception:  # noqa: BLE001
                pass
        return out_

    first_cache = {}
    for i, op in enumerate(spec["ops"]):
        b = builders[op.get("builder", 0)]
        kind = op["op"]
        if kind == "set":
            if op["field"] == "stable":
                b.config.stable_final_state_ids = op["value"]
            elif op["field"] == "scalar":
                b.config.scalar_initial_state_mass = op["value"]
            elif op["field"] == "couplings":
                b.config.use_helicity_couplings = op["value"]
            elif op["field"] == "align":
                v = op["value"]
                b.config.spin_alignment = NoAlignment() if v == "none" else AxisAngleAlignment() if v == "axisangle" else DalitzPlotDecomposition(int(v[3]))
        elif kind == "naming":
            order = op.get("order") or [["parent", op["parent"]], ["child", op["child"]], ["ls", op["ls"]]]
            for flag, value in order:
                attr = {"parent": "insert_parent_helicities", "child": "insert_child_helicities", "ls": "insert_ls_combinations"}[flag]
                if hasattr(b.naming, attr):
                    setattr(b.naming, attr, value)
        elif kind == "assign":
            C.apply_config(b, reaction, {**_base_cfg(b), "dynamics": [{"select": op["select"], "target": op["target"], "builder": op["kind"]}]})
        elif kind == "permutate":
            b.adapter.permutate_registered_topologies()
            permutated[id(b)] = True
        elif kind == "formulate":
            key, desc = config_key(b)
            handed_out.clear()
            try:
                m = b.formulate()
            except Exception as exc:  # noqa: BLE001
                out.write(json.dumps({"type": "formulate", "op": i, "builder": op.get("builder", 0), "key": key, "config": desc,
                                      "exception": f"{type(exc).__name__}: {exc}"[:200], "hashseed": os.environ.get("PYTHONHASHSEED")}) + "\n")
                continue
            mutated = [name for name, obj, d0 in handed_out if h(sorted((sp.srepr(kk), sp.srepr(vv)) for kk, vv in obj.items())) != d0]
            cd = cache_digest()
            cache_changed = []
            for ref, de, dd in cd:
                if ref in first_cache and first_cache[ref] != (de, dd):
                    cache_changed.append(ref)
                first_cache.setdefault(ref, (de, dd))
            out.write(json.dumps({"type": "formulate", "op": i, "builder": op.get("builder", 0), "key": key, "config": desc, "digests": model_digests(m),
                                  "mutated_after_return": mutated, "cache_changed": cache_changed,
                                  "hashseed": os.environ.get("PYTHONHASHSEED"), "pid": os.getpid()}) + "\n")
    return 0


def _base_cfg(b):
    cfg = b.config
    return {"stable": None if cfg.stable_final_state_ids is None else sorted(cfg.stable_final_state_ids), "scalar_mass": cfg.scalar_initial_state_mass,
            "couplings": cfg.use_helicity_couplings, "align": "keep", "naming": None, "permutate": False}


if __name__ == "__main__":
    sys.exit(main())
