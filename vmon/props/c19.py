"""C19 — Dalitz-plot-decomposition angles satisfy their geometry and identities."""
from __future__ import annotations

import itertools

import numpy as np

ID = "C19"
LEVEL = "exploration"
RULE = ("case = (check family, mass-configuration class, event stratum); every accepted index tuple of "
        "formulate_scattering_angle / formulate_theta_hat_angle / formulate_zeta_angle is evaluated (route A) on "
        "masses derived from generated three-body events and compared with angles measured on the four-momenta; "
        "distinct = (family, index tuple, mass class, stratum); non-trivial iff the indices are not all equal and "
        "the stratum is interior or approaches the boundary")
ASSUMPTIONS = ["reference angles from four-momenta by vector algebra (pure boosts, dot products)",
               "tolerance scales with 1/sin(angle) (acos conditioning) and with the boost of the sub-system"]
FLOORS = {"quick": {"evaluations": 1500, "distinct_nontrivial": 100,
                    "hooks": ["formulate_scattering_angle", "formulate_theta_hat_angle", "formulate_zeta_angle"]},
          "thorough": {"evaluations": 10000, "distinct_nontrivial": 300,
                       "hooks": ["formulate_scattering_angle", "formulate_theta_hat_angle", "formulate_zeta_angle"]}}
CASE_TIMEOUT = {"quick": 240, "thorough": 900}
EPS = np.finfo(float).eps
MASS_CLASSES = ["generic", "one_massless", "two_massless", "equal", "hierarchical", "near_threshold"]
STRATA = ["flat", "threshold", "boosted", "collinear", "heavy"]


DPD_FIXTURES = ["jpsi_k0_sigmap_pbar__sigma1775_n1650.hel", "jpsi_gamma_pi0_pi0__f0_f2.hel",
                "jpsi_k0_sigmap_pbar__sigma1750.hel"]


def _run_dpd_model(case, rec, ctx, rng):
    """Alignment angles of a DPD-aligned model: for reference subsystem r, rotated state i with spin and chain
    spectator k the model must define zeta^i_{k(r)} (no other reference), with the value of formulate_zeta_angle(i,k,r)
    (whose geometry and identities the other strata judge), and must use exactly the angles it defines."""
    import re

    import sympy as sp
    from ampform import get_builder
    from ampform.helicity.align.dpd import DalitzPlotDecomposition, relabel_edge_ids
    from ampform.helicity.decay import get_spectator_id
    from vmon.workloads.reactions import load_fixture, topologies_of

    A = ctx["A"]
    ref = case["ref"]
    feats = {"family": "dpd_model", "fixture": case["fixture"], "ref": ref}
    r = load_fixture(case["fixture"])
    if set(r.final_state) != {1, 2, 3}:
        r = relabel_edge_ids(r)
    rec.case(("dpd_model", case["fixture"], ref), True, family="dpd_model")
    b = get_builder(r)
    b.config.spin_alignment = DalitzPlotDecomposition(ref)
    model = b.formulate()
    spins = {0: next(iter(r.initial_state.values())).spin}
    spins.update({i: p.spin for i, p in r.final_state.items()})
    spectators = sorted({get_spectator_id(t) for t in topologies_of(r)})
    expected = {(i, k, ref) for i in range(4) if spins[i] != 0 for k in spectators}
    pat = re.compile(r"^\\zeta\^(\d)_\{(\d)\((\d)\)\}$")
    defined = {}
    for sym, expr in model.kinematic_variables.items():
        m = pat.match(sym.name)
        if m:
            defined[tuple(int(g) for g in m.groups())] = (sym, expr)
    rec.check(len(expected) == 0 or len(defined) > 0, "dpd_no_alignment_angles",
              f"DPD model with reference {ref} defines no alignment angle although states {sorted(i for i in spins if spins[i])} carry spin",
              {"fixture": case["fixture"], "ref": ref}, feats)
    wrong_ref = sorted(k for k in defined if k[2] != ref)
    rec.check(not wrong_ref, "dpd_wrong_reference",
              f"DalitzPlotDecomposition(reference_subsystem={ref}) defines alignment angles relative to another subsystem: {wrong_ref[:4]}",
              {"fixture": case["fixture"], "ref": ref, "defined": sorted(defined)}, feats)
    rec.check(set(defined) == expected, "dpd_angle_set",
              f"alignment angles defined {sorted(defined)} != required {sorted(expected)} (rotated states with spin x chain spectators, reference {ref})",
              {"fixture": case["fixture"], "ref": ref}, feats)
    used = set(model.expression.free_symbols)
    for e in model.amplitudes.values():
        used |= e.free_symbols
    used = {s for s in used if pat.match(s.name)}
    undefined = sorted(s.name for s in used if s not in model.kinematic_variables)
    rec.check(not undefined, "dpd_undefined_angle", f"model uses alignment angles it does not define: {undefined}",
              {"fixture": case["fixture"], "ref": ref}, feats)
    vals = None
    raw = {s.name: e for s, e in DalitzPlotDecomposition(ref).define_symbols(r).items()}
    rec.check({n for n in raw if pat.match(n)} == {v[0].name for v in defined.values()}, "dpd_angle_set",
              f"define_symbols() and the model disagree on the alignment angles: {sorted(raw)} vs {sorted(v[0].name for v in defined.values())}",
              {"fixture": case["fixture"], "ref": ref}, feats)
    for (i, k, rr), (sym, _model_expr) in sorted(defined.items()):
        if sym.name not in raw:
            continue
        expr = raw[sym.name]  # in the mass symbols m_0..m_23 (the model substitutes invariant masses of four-momenta)
        want = A.formulate_zeta_angle(i, k, rr)[1]
        if sp.sympify(expr) == sp.sympify(want):
            rec.check(True, "dpd_angle_value", "", None, feats)
            if (k == rr):
                rec.check(sp.sympify(expr) == 0, "dpd_reference_chain_zero", f"{sym.name} must be 0 (chain of the reference subsystem), got {expr}",
                          {"fixture": case["fixture"], "ref": ref}, feats)
            continue
        if vals is None:
            from vmon.props.c20 import masses_for
            from vmon.workloads.events import gen_events, mass2
            M0, ms = masses_for("generic", rng)
            ev = gen_events(M0, ms, 50, rng, ids=[1, 2, 3], stratum="flat")
            mass = lambda q: np.sqrt(np.maximum(mass2(q), 0))  # noqa: E731
            vals = {"m_0": np.full(50, M0), "m_1": np.full(50, ms[0]), "m_2": np.full(50, ms[1]), "m_3": np.full(50, ms[2]),
                    "m_23": mass(ev[2] + ev[3]), "m_13": mass(ev[1] + ev[3]), "m_12": mass(ev[1] + ev[2])}
        syms = sorted(sp.sympify(expr).free_symbols | sp.sympify(want).free_symbols, key=str)
        ok = {s.name for s in syms} <= set(vals)
        if ok:
            f = sp.lambdify(syms, [sp.sympify(expr).doit(), sp.sympify(want).doit()], "numpy")
            with np.errstate(all="ignore"):
                a, w = f(*[vals[s.name] for s in syms])
            a, w = np.broadcast_to(a, (50,)), np.broadcast_to(w, (50,))
            ok = bool(np.all(np.abs(a - w) <= 1e-6))
        rec.check(ok, "dpd_angle_value", f"model defines {sym.name} differently from formulate_zeta_angle({i},{k},{rr})",
                  {"fixture": case["fixture"], "ref": ref, "defined": str(expr)[:200], "expected": str(want)[:200]}, feats)


def plan(tier, seed):
    reps = 1 if tier == "quick" else 100
    cases = []
    for rep in range(reps):
        for mc in MASS_CLASSES:
            for st in STRATA:
                cases.append({"masses": mc, "stratum": st, "rep": rep, "cost": 1.0})
    cases.append({"masses": "generic", "stratum": "signature", "rep": 0, "cost": 0.2})
    # the alignment angles a Dalitz-plot-decomposition model defines, for every reference subsystem (anchor:
    # _DPDAlignmentWignerGenerator uses the zeta angles)
    fixtures = DPD_FIXTURES
    if tier != "quick":
        from vmon.workloads.reactions import fixture_names, load_fixture
        fixtures = [f for f in fixture_names("helicity") if len(load_fixture(f).final_state) == 3]
    for fx in fixtures:
        for ref in (1, 2, 3):
            cases.append({"masses": "generic", "stratum": "dpd_model", "fixture": fx, "ref": ref, "rep": 0, "cost": 3.0})
    return cases


def setup_worker(rec, ctx):
    import sympy as sp
    from ampform.kinematics import angles as A
    from vmon.core import attach

    # contracts on the three public functions: every call is counted; the returned pair must be (Symbol, expr
    # over the seven mass symbols only)
    allowed = {"m_0", "m_1", "m_2", "m_3", "m_12", "m_13", "m_23"}

    def ensure(old, result, *a, **k):
        sym, expr = result
        names = {s.name for s in sp.sympify(expr).free_symbols}
        rec.check(names <= allowed, "foreign_symbol", f"angle expression for {sym} depends on {sorted(names - allowed)}",
                  {"args": a, "kwargs": k}, {"family": "signature"})
    for fn in ("formulate_scattering_angle", "formulate_theta_hat_angle", "formulate_zeta_angle"):
        attach(A, fn, hook=fn, rec=rec, ensure=ensure)
    ctx["A"] = A
    ctx["cache"] = {}


def _lam(ctx, key, builder):
    import sympy as sp
    c = ctx["cache"]
    if key not in c:
        try:
            _, expr = builder()
        except (NotImplementedError, ValueError) as exc:
            c[key] = exc
            return exc
        expr = sp.sympify(expr)
        cosargs = [n.args[0] for n in expr.atoms(sp.acos)]
        e = expr.doit()
        fs = sorted(e.free_symbols, key=str)
        f = sp.lambdify(fs, e) if fs else (lambda v=float(e): v)
        g = []
        for ca in cosargs:
            cad = ca.doit()
            gfs = sorted(cad.free_symbols, key=str)
            g.append((gfs, sp.lambdify(gfs, cad)))
        c[key] = (fs, f, g)
    return c[key]


def _eval(entry, vals, n):
    fs, f, _ = entry
    with np.errstate(all="ignore"):
        return np.asarray(f(*[vals[s.name] for s in fs]), dtype=float) * np.ones(n)


def _cosargs(entry, vals, n):
    out = []
    for gfs, g in entry[2]:
        with np.errstate(all="ignore"):
            out.append(np.asarray(g(*[vals[s.name] for s in gfs]), dtype=float) * np.ones(n))
    return out


def _perturbed(vals, rng, rel=1e-12):
    """Inputs with relative noise: the generated events (and any float computation of the mass variables) carry
    rounding of this order, so an output change under this noise is conditioning, not a defect."""
    return {k: v * (1 + rel * rng.normal(size=np.shape(v))) for k, v in vals.items()}


def _well_inside(vals, rng):
    """Boolean per event: the point (sigma1, sigma2, sigma3; masses) is a physical Dalitz point by a margin larger than the
    rounding of the generated inputs: Kibble's phi < 0 for the values as given and under three relative 1e-9 perturbations.
    Events failing this are within input noise of the boundary (an invariant mass computed from boosted four-momenta can come out
    marginally beyond its threshold): whether they are physical at all is not decidable from the floats, so a NaN there is not
    judged.  Anything well inside is judged, NaN included."""
    def lam(x, y, z):
        return x * x + y * y + z * z - 2 * x * y - 2 * y * z - 2 * z * x

    def phi(v):
        m0, m1, m2, m3 = (v["m_0"] ** 2, v["m_1"] ** 2, v["m_2"] ** 2, v["m_3"] ** 2)
        s1, s2, s3 = v["m_23"] ** 2, v["m_13"] ** 2, v["m_12"] ** 2
        return lam(lam(s2, m2, m0), lam(s3, m3, m0), lam(s1, m1, m0))
    ok = phi(vals) < 0
    for _ in range(3):
        ok &= phi(_perturbed(vals, rng, rel=1e-9)) < 0
    return ok


def _sens(fn, entry, vals, n, rng, v0):
    """Empirical conditioning: max change of the output under three 1e-12 relative input perturbations."""
    worst = np.zeros_like(v0) if not isinstance(v0, list) else [np.zeros(n) for _ in v0]
    for _ in range(3):
        v1 = fn(entry, _perturbed(vals, rng), n)
        if isinstance(v0, list):
            for a, b, w in zip(v0, v1, worst):
                d = np.abs(a - b)
                np.maximum(w, np.where(np.isfinite(d), d, np.inf), out=w)
        else:
            d = np.abs(v0 - v1)
            worst = np.maximum(worst, np.where(np.isfinite(d), d, np.inf))
    return worst


def _acos_floor(v):
    """Every angle of this module is acos(c): one rounding of c (|c| <= 1, ulp ~ 1e-16) moves the angle by ulp/sin(angle),
    whatever the conditioning with respect to the inputs is (observed: angles of 5e-7 accurate to 1e-9 only)."""
    with np.errstate(all="ignore"):
        return 64 * EPS / np.maximum(np.abs(np.sin(v)), 1e-300)


def _angle(a, b):
    na, nb = np.linalg.norm(a, axis=1), np.linalg.norm(b, axis=1)
    c = np.sum(a * b, 1) / (na * nb)
    # robust angle: atan2(|a x b|, a.b)
    cr = np.linalg.norm(np.cross(a, b), axis=1)
    return np.arctan2(cr, np.sum(a * b, 1)), c


def run_case(case, rec, ctx):
    from vmon.props.c20 import masses_for
    from vmon.workloads.events import boost_to_rest, gen_events, mass2

    A = ctx["A"]
    rng = np.random.default_rng([ctx["seed"], 19, case["idx"]])
    mc, st = case["masses"], case["stratum"]
    feats = {"masses": mc, "stratum": st}
    if st == "signature":
        # argument validation of the public functions (exceptions are the documented refusals)
        rec.case(("signature",), False, family="signature")
        for i, j in itertools.product(range(0, 5), repeat=2):
            e = _lam(ctx, ("theta", i, j), lambda i=i, j=j: A.formulate_scattering_angle(i, j))
            valid = {i, j} <= {1, 2, 3} and i != j
            rec.check(isinstance(e, Exception) != valid, "scattering_angle_domain",
                      f"formulate_scattering_angle({i},{j}): {'refused' if isinstance(e, Exception) else 'accepted'} but index pair is {'valid' if valid else 'invalid'}",
                      {"i": i, "j": j}, {"family": "signature", "reversed_pair": (i, j) in ((2, 1), (3, 2), (1, 3))})
        return
    if st == "dpd_model":
        return _run_dpd_model(case, rec, ctx, rng)
    M0, ms = masses_for(mc, rng)
    n = 300 if ctx["tier"] == "quick" else 1500
    ev = gen_events(M0, ms, n, rng, ids=[1, 2, 3], stratum=st)
    p = {i: ev[i] for i in (1, 2, 3)}
    mass = lambda q: np.sqrt(np.maximum(mass2(q), 0))  # noqa: E731
    vals = {"m_0": np.full(n, M0), "m_1": np.full(n, ms[0]), "m_2": np.full(n, ms[1]), "m_3": np.full(n, ms[2]),
            "m_23": mass(p[2] + p[3]), "m_13": mass(p[1] + p[3]), "m_12": mass(p[1] + p[2])}
    inside = _well_inside(vals, rng)
    rec.stratum("dalitz_margin", "well_inside", int(inside.sum()))
    rec.stratum("dalitz_margin", "within_input_noise_of_boundary", int((~inside).sum()))
    w0 = {"m0": M0, "m1": ms[0], "m2": ms[1], "m3": ms[2], "stratum": st}
    rec.sample(f"{mc}:{st}", {**w0, "m_23": vals["m_23"][0], "m_13": vals["m_13"][0], "m_12": vals["m_12"][0]})

    def wit(i, **kw):
        return {**w0, "m_23": vals["m_23"][i], "m_13": vals["m_13"][i], "m_12": vals["m_12"][i], **kw}

    # conditioning: masses enter squared and are differenced; relative rounding of the generated events ~1e-13
    base = 1e-9
    # --- theta hat -----------------------------------------------------------------------------
    th = {}
    for i, j in itertools.product((1, 2, 3), repeat=2):
        e = _lam(ctx, ("hat", i, j), lambda i=i, j=j: A.formulate_theta_hat_angle(i, j))
        if isinstance(e, Exception):
            rec.check(False, "theta_hat_refused", f"formulate_theta_hat_angle({i},{j}) raised {e!r}", None, feats)
            continue
        v = _eval(e, vals, n)
        th[i, j] = v
        rec.case(("hat", i, j, mc, st), i != j, family="theta_hat")
        cas = _cosargs(e, vals, n)
        for ca, cs in zip(cas, _sens(_cosargs, e, vals, n, rng, cas)):
            ok = (np.abs(ca) <= 1 + 1e-12 + 1e3 * cs) | ~inside
            k = int(np.argmin(ok))
            rec.check(bool(ok.all()), "acos_argument", f"theta_hat_{i}({j}): arccos argument {ca[k]!r} outside [-1,1]", wit(k), {**feats, "family": "theta_hat"})
        if i == j:
            rec.check(bool((v == 0).all()), "theta_hat_equal_indices", f"theta_hat_{i}({i}) != 0", wit(0), feats)
            continue
        ref, c = _angle(p[i][:, 1:], p[j][:, 1:])
        sign = 1.0 if (i, j) in ((3, 1), (1, 2), (2, 3)) else -1.0
        tol = base + 1e3 * _sens(_eval, e, vals, n, rng, v)
        rec.stratum("judged_fraction:theta_hat", "judged" if np.mean(tol < 1e-3) > 0.5 else "mostly_ill_conditioned")
        ok = (np.abs(v - sign * ref) <= tol) | (tol > 1e-3)
        k = int(np.argmin(ok))
        rec.check(bool(ok.all()), "theta_hat_geometry", f"theta_hat_{i}({j}) = {v[k]!r} but angle(p{i},p{j}) in the parent frame = {sign * ref[k]!r}",
                  wit(k, got=v[k], ref=sign * ref[k]), {**feats, "family": "theta_hat"})
    for i, j in itertools.combinations((1, 2, 3), 2):
        if (i, j) in th and (j, i) in th:
            ok = (th[i, j] == -th[j, i]) | (np.isnan(th[i, j]) & np.isnan(th[j, i]))
            rec.check(bool(ok.all()), "theta_hat_antisymmetry", f"theta_hat_{i}({j}) != -theta_hat_{j}({i})", wit(int(np.argmin(ok))), feats)
    # --- scattering angle ----------------------------------------------------------------------
    sc = {}
    for i, j in itertools.permutations((1, 2, 3), 2):
        e = _lam(ctx, ("theta", i, j), lambda i=i, j=j: A.formulate_scattering_angle(i, j))
        if isinstance(e, Exception):
            # documented refusal of the reversed pairs is acceptable (see property text); count, do not judge
            rec.note(f"scattering_angle_{i}{j}_refused")
            continue
        v = _eval(e, vals, n)
        sc[i, j] = v
        rec.case(("theta", i, j, mc, st), True, family="scattering")
        cas = _cosargs(e, vals, n)
        for ca, cs in zip(cas, _sens(_cosargs, e, vals, n, rng, cas)):
            ok = (np.abs(ca) <= 1 + 1e-12 + 1e3 * cs) | ~inside
            k = int(np.argmin(ok))
            rec.check(bool(ok.all()), "acos_argument", f"theta_{i}{j}: arccos argument {ca[k]!r} outside [-1,1]", wit(k), {**feats, "family": "scattering"})
        k_id = ({1, 2, 3} - {i, j}).pop()
        R = p[i] + p[j]
        mR = vals["m_" + "".join(map(str, sorted((i, j))))]
        pi_ = boost_to_rest(p[i], R, mR)
        pk_ = boost_to_rest(p[k_id], R, mR)
        ref, c = _angle(pi_[:, 1:], -pk_[:, 1:])
        gam = R[:, 0] / np.maximum(mR, 1e-300)
        qi = np.linalg.norm(pi_[:, 1:], axis=1)
        # reference side: boosting with gamma and dividing by the break-up momentum
        tol = base * gam ** 2 * (1 + M0 / np.maximum(qi, 1e-300)) / np.maximum(np.sin(ref), 1e-6) + 1e3 * _sens(_eval, e, vals, n, rng, v)
        rec.stratum("judged_fraction:scattering", "judged" if np.mean(tol < 1e-3) > 0.5 else "mostly_ill_conditioned")
        ok = (np.abs(v - ref) <= tol) | (tol > 1e-3)
        k = int(np.argmin(ok))
        rec.check(bool(ok.all()), "scattering_angle_geometry",
                  f"theta_{i}{j} = {v[k]!r} but the helicity angle of {i} in the ({i}{j}) frame (w.r.t. -p{k_id}) = {ref[k]!r}",
                  wit(k, got=v[k], ref=ref[k]), {**feats, "family": "scattering"})
    for i, j in itertools.combinations((1, 2, 3), 2):
        if (i, j) in sc and (j, i) in sc:
            s_ = sc[i, j] + sc[j, i]
            sin_ = np.minimum(np.abs(np.sin(sc[i, j])), np.abs(np.sin(sc[j, i])))
            e1, e2 = ctx["cache"]["theta", i, j], ctx["cache"]["theta", j, i]
            tol = base + 1e3 * (_sens(_eval, e1, vals, n, rng, sc[i, j]) + _sens(_eval, e2, vals, n, rng, sc[j, i])) + _acos_floor(sc[i, j]) + _acos_floor(sc[j, i])
            ok = (np.abs(s_ - np.pi) <= tol) | (tol > 1e-3) | ~np.isfinite(s_)  # NaN: judged by acos_argument
            k = int(np.argmin(ok))
            rec.check(bool(ok.all()), "scattering_angle_sum", f"theta_{i}{j} + theta_{j}{i} = {s_[k]!r} != pi", wit(k), {**feats, "family": "scattering"})
    # --- zeta ----------------------------------------------------------------------------------
    z = {}
    zs = {}
    refused = []
    for i, j, k3 in itertools.product(range(4), (1, 2, 3), range(4)):
        e = _lam(ctx, ("zeta", i, j, k3), lambda i=i, j=j, k3=k3: A.formulate_zeta_angle(i, j, k3))
        if isinstance(e, Exception):
            refused.append((i, j, k3))
            continue
        v = _eval(e, vals, n)
        z[i, j, k3] = v
        zs[i, j, k3] = _sens(_eval, e, vals, n, rng, v)
        rec.case(("zeta", i, j, k3, mc, st), not (j == k3), family="zeta")
        cas = _cosargs(e, vals, n)
        for ca, cs in zip(cas, _sens(_cosargs, e, vals, n, rng, cas)):
            ok = (np.abs(ca) <= 1 + 1e-12 + 1e3 * cs) | ~inside
            kk = int(np.argmin(ok))
            rec.check(bool(ok.all()), "acos_argument", f"zeta^{i}_{j}({k3}): arccos argument {ca[kk]!r} outside [-1,1]", wit(kk), {**feats, "family": "zeta"})
    rec.stratum("zeta_tuples_refused", len(refused))

    def close(ta, tb):
        a, b = z[ta], z[tb]
        tol = base + 1e3 * (zs[ta] + zs[tb]) + _acos_floor(a) + _acos_floor(b)
        return (np.abs(a - b) <= tol) | (tol > 1e-3) | ~np.isfinite(a) | ~np.isfinite(b)

    for i in (1, 2, 3):
        for k3 in (1, 2, 3):
            if (i, k3, 0) in z and (i, k3, i) in z:
                ok = close((i, k3, 0), (i, k3, i))
                rec.check(bool(ok.all()), "zeta_reference_zero", f"zeta^{i}_{k3}(0) != zeta^{i}_{k3}({i})", wit(int(np.argmin(ok))), {**feats, "family": "zeta"})
            if (i, k3, k3) in z:
                rec.check(bool((z[i, k3, k3] == 0).all()), "zeta_same_subsystem", f"zeta^{i}_{k3}({k3}) != 0", wit(0), {**feats, "family": "zeta"})
    # zeta^0_{j(k)} = theta_hat_{j(k)}
    for j, k3 in itertools.product((1, 2, 3), repeat=2):
        if (0, j, k3) in z and (j, k3) in th:
            ok = (z[0, j, k3] == th[j, k3]) | (np.isnan(z[0, j, k3]) & np.isnan(th[j, k3]))
            rec.check(bool(ok.all()), "zeta_initial_state", f"zeta^0_{j}({k3}) != theta_hat_{j}({k3})", wit(int(np.argmin(ok))), {**feats, "family": "zeta"})
    # cyclic sum rules: zeta^i_{j(k)} = zeta^i_{j(i)} + zeta^i_{i(k)} for (i,j,k) cyclic permutations of (1,2,3)
    for i, j, k3 in ((1, 2, 3), (2, 3, 1), (3, 1, 2)):
        if all(t in z for t in ((i, j, k3), (i, j, i), (i, i, k3))):
            lhs, rhs = z[i, j, k3], z[i, j, i] + z[i, i, k3]
            # for a massless particle i all three angles are degenerate (0 or pi): compare modulo 2 pi
            d = np.abs(np.angle(np.exp(1j * (lhs - rhs))))
            tol = base + 1e3 * (zs[i, j, k3] + zs[i, j, i] + zs[i, i, k3]) + _acos_floor(z[i, j, k3]) + _acos_floor(z[i, j, i]) + _acos_floor(z[i, i, k3])
            ok = (d <= tol) | (tol > 1e-3) | ~np.isfinite(d)
            kk = int(np.argmin(ok))
            rec.check(bool(ok.all()), "zeta_sum_rule", f"zeta^{i}_{j}({k3}) = {lhs[kk]!r} != zeta^{i}_{j}({i}) + zeta^{i}_{i}({k3}) = {rhs[kk]!r}",
                      wit(kk), {**feats, "family": "zeta", "massless_i": ms[i - 1] == 0.0})
    # antisymmetry zeta^i_{j(k)} = -zeta^i_{k(j)}
    for i, j, k3 in itertools.product((1, 2, 3), repeat=3):
        if j < k3 and (i, j, k3) in z and (i, k3, j) in z:
            ok = (z[i, j, k3] == -z[i, k3, j]) | (np.isnan(z[i, j, k3]) & np.isnan(z[i, k3, j]))
            rec.check(bool(ok.all()), "zeta_antisymmetry", f"zeta^{i}_{j}({k3}) != -zeta^{i}_{k3}({j})", wit(int(np.argmin(ok))), {**feats, "family": "zeta"})
    # route B: the masses are inserted as exact numbers (an exactly massless particle = exact zero) *before* doit();
    # the result must be the same function of the Dalitz variables as the symbolic route A evaluated above
    if st in ("flat", "threshold"):
        import sympy as sp
        exact = {"m_0": sp.Rational(M0), "m_1": sp.Rational(ms[0]), "m_2": sp.Rational(ms[1]), "m_3": sp.Rational(ms[2])}
        todo = [(("hat", i, j), th[i, j], (lambda i=i, j=j: A.formulate_theta_hat_angle(i, j)), f"theta_hat_{i}({j})") for (i, j) in th]
        todo += [(("theta", i, j), sc[i, j], (lambda i=i, j=j: A.formulate_scattering_angle(i, j)), f"theta_{i}{j}") for (i, j) in sc]
        todo += [(("zeta", i, j, k3), z[i, j, k3], (lambda i=i, j=j, k3=k3: A.formulate_zeta_angle(i, j, k3)), f"zeta^{i}_{j}({k3})") for (i, j, k3) in z]
        if ctx["tier"] == "quick":
            todo = [todo[k] for k in sorted(rng.choice(len(todo), min(len(todo), 24), replace=False))]
        for key, va, build, label in todo:
            rec.hit("route:numbers_before_doit")
            try:
                _, expr = build()
                expr = sp.sympify(expr)
                eb = expr.xreplace({s_: exact[s_.name] for s_ in expr.free_symbols if s_.name in exact}).doit()
                fs_b = sorted(eb.free_symbols, key=str)
                fb = sp.lambdify(fs_b, eb) if fs_b else (lambda v_=complex(eb): v_)
                with np.errstate(all="ignore"):
                    vb = np.asarray(fb(*[vals[s_.name] for s_ in fs_b])) * np.ones(n)
            except Exception as exc:  # noqa: BLE001
                rec.check(False, "numbers_first_route", f"{label}: inserting exact masses before doit() raised {type(exc).__name__}: {str(exc)[:150]}", wit(0),
                          {**feats, "family": key[0], "route": "numbers_before_doit"})
                continue
            vb = np.where(np.abs(np.imag(vb)) < 1e-12, np.real(vb), np.nan)
            tol = base + 1e3 * _sens(_eval, ctx["cache"][key], vals, n, rng, va) + _acos_floor(va)
            # where the symbolic route is already NaN (0/0 for the degenerate angles of a massless particle) that is judged
            # by acos_argument above; here only: wherever route A is finite, route B must agree
            ok = (np.abs(vb - va) <= tol) | (tol > 1e-3) | ~inside | ~np.isfinite(va)
            # an angle within 1e-6 of 0 or pi is acos(+-1 -+ 1e-12 or less): whether the rounded argument lands a few ulp inside
            # or outside [-1, 1] (NaN) differs between two evaluation orders of the same formula; judged by acos_argument, not here
            ok |= np.isnan(vb) & (np.abs(np.sin(va)) < 1e-6)
            if key[0] == "zeta" and 1 <= key[1] <= 3 and ms[key[1] - 1] == 0.0:
                # alignment angle of a massless particle: degenerate (0/0 in the formula, exactly so with an exact zero mass; route A
                # returns rounding noise ~1e-8 there).  Counted, not judged - as in the sum-rule check above.
                rec.stratum("route_b_degenerate_massless_zeta", "skipped", int((~ok).sum()))
                ok |= True
            kk = int(np.argmin(ok))
            rec.check(bool(ok.all()), "numbers_first_route",
                      f"{label}: with exact masses inserted before doit() the angle is {vb[kk]!r}, the symbolic route gives {va[kk]!r}",
                      wit(kk), {**feats, "family": key[0], "route": "numbers_before_doit", "massless": [m_ == 0.0 for m_ in ms]})
    # geometric meaning of the elementary alignment angle (Wigner angle of particle i between the chain in which
    # it is the spectator's partner ...): zeta^i_{i(k)} is the angle, in the rest frame of i, between the
    # directions of the parent (0) and of the pair partner in subsystem k.  For massive i only.
    for i in (1, 2, 3):
        if ms[i - 1] <= 0:
            continue
        for k3 in (1, 2, 3):
            if k3 == i or (i, i, k3) not in z:
                continue
            # subsystem k = pair (i, j) with j the third index; in the rest frame of i: angle between -p0 ... use
            # the textbook form: cos zeta^i_{i(k)} = angle between p_0 and p_j seen from i's rest frame
            j = ({1, 2, 3} - {i, k3}).pop()
            P0 = p[1] + p[2] + p[3]
            mi = np.full(n, ms[i - 1])
            a = boost_to_rest(P0, p[i], mi)[:, 1:]
            b = boost_to_rest(p[i] + p[j], p[i], mi)[:, 1:]
            ref, _ = _angle(a, b)
            v = np.abs(z[i, i, k3])
            gam = p[i][:, 0] / mi
            tol = base * gam ** 2 * (1 + M0 / np.maximum(np.linalg.norm(b, axis=1), 1e-300)) / np.maximum(np.sin(ref), 1e-6) + 1e3 * zs[i, i, k3]
            rec.stratum("judged_fraction:zeta_geometry", "judged" if np.mean(tol < 1e-3) > 0.5 else "mostly_ill_conditioned")
            ok = (np.abs(v - ref) <= tol) | ~np.isfinite(v) | (tol > 1e-3)
            kk = int(np.argmin(ok))
            rec.check(bool(ok.all()), "zeta_geometry",
                      f"|zeta^{i}_{i}({k3})| = {v[kk]!r} but the angle between the parent and the ({i}{j}) pair seen from the rest frame of {i} is {ref[kk]!r}",
                      wit(kk, got=v[kk], ref=ref[kk]), {**feats, "family": "zeta"})


META = {
    "technique": "runtime contracts on formulate_scattering_angle / formulate_theta_hat_angle / formulate_zeta_angle: lambdified results compared with angles measured on generated four-momenta and with the identities of the statement",
    "level_text": "All index tuples the three functions accept are evaluated on masses derived from generated three-body events (six mass classes incl. massless/equal/near-threshold, five event strata incl. collinear and threshold) and judged against vector-algebra angles (theta-hat, scattering angle, elementary zeta angle) and the listed identities (antisymmetry, theta_ij+theta_ji=pi, zeta reference rules, cyclic sum rules, arccos domain). Observation of executions only. Route B (exact masses inserted before doit(), exact zeros for massless particles) is compared with the symbolic route for every formula. Dalitz-plot-decomposition models of three fixtures (thorough tier: all 29 three-body helicity fixtures) are formulated for every reference subsystem 1, 2, 3 and the alignment angles they define are judged: all relative to the requested reference, one per (rotated state with spin, chain spectator), value equal to formulate_zeta_angle(i,k,r), zero for the reference chain, every used angle defined.",
    "level_note": "Reference geometry follows the property text (angle of i w.r.t. -p_k in the (ij) frame); acos conditioning 1/sin(angle) enters the tolerance; points within rounding of the Dalitz boundary are judged only for arccos-domain excursions > 1e-7.",
}
