"""C03 — parity partners carry exactly the parity sign of the flipped nodes."""
from __future__ import annotations

import itertools

import numpy as np

ID = "C03"
LEVEL = "exploration"
RULE = ("case = 'sign': one helicity-formalism reaction with >= 1 parity-conserving node (fixture or synthetic; naming flags "
        "varied): chains are grouped by coefficient symbol and every pair that differs only by reversing daughter helicities "
        "at some nodes must have relative sign prod eta over exactly those nodes (eta from the particles' parities and spins); "
        "case = 'equiv': the same reaction in both formalisms with random complex LS coefficients - the helicity coefficients "
        "given by the Clebsch-Gordan expansion must reproduce the canonical intensity at 4 random angle points. distinct = "
        "(eta pattern over nodes, flip pattern) resp. (reaction, formalism pair); non-trivial iff >= 2 constrained nodes with "
        "unlike eta or a coefficient shared by >= 3 chains")
ASSUMPTIONS = ["eta = P P1 P2 (-1)^(J-s1-s2) computed from qrules particle parities, not from parity_prefactor",
               "C02's reference formula for the chain values"]
FLOORS = {"quick": {"evaluations": 1500, "distinct_nontrivial": 15,
                    "hooks": ["HelicityAmplitudeBuilder.__formulate_sequential_decay", "judge:sign", "judge:equivalence"]},
          "thorough": {"evaluations": 15000, "distinct_nontrivial": 60,
                       "hooks": ["HelicityAmplitudeBuilder.__formulate_sequential_decay", "judge:sign", "judge:equivalence"]}}
CASE_TIMEOUT = {"quick": 300, "thorough": 900}
WALL_BUDGET = {"quick": 900, "thorough": 10800}


def plan(tier, seed):
    from vmon.workloads.reactions import fixture_names
    rng = np.random.default_rng([seed, 3])
    cases = []
    hel = fixture_names("helicity")
    skip_equiv = ("psi2s", "lambdab")
    for name in hel:
        for k in ((0, 3) if tier == "quick" else range(6)):
            cases.append({"kind": "sign", "reaction": {"kind": "fixture", "name": name}, "naming": k, "seed": int(rng.integers(1 << 30)), "cost": 3.0})
        if not name.startswith(skip_equiv) or tier == "thorough":
            cases.append({"kind": "equiv", "reaction": {"kind": "fixture", "name": name[:-4]}, "seed": int(rng.integers(1 << 30)), "cost": 8.0})
    n_syn = 60 if tier == "quick" else 800
    for k in range(n_syn):
        desc = {"kind": "synth", "seed": int(rng.integers(1 << 30)), "n_final": [2, 3, 3, 4, 3, 4, 3, 5][k % 8], "max_spin2": 4 if k % 3 else 6,
                "shuffle_names": k % 4 >= 2}
        cases.append({"kind": "sign", "reaction": desc, "naming": k % 6, "seed": int(rng.integers(1 << 30)), "cost": 2.5})
        if k % 2 == 0:
            cases.append({"kind": "equiv", "reaction": desc, "seed": int(rng.integers(1 << 30)), "cost": 6.0})
    return cases


def setup_worker(rec, ctx):
    from vmon.refmodel.helicity import ChainLog
    ctx["log"] = ChainLog()
    ctx["log"].install(rec)


def _synth(desc, formalism):
    from vmon.workloads import reactions as R
    rng = np.random.default_rng([desc["seed"]])
    for attempt in range(40):
        spec = R.synth_spec(rng, n_final=desc["n_final"], formalism="helicity", max_spin2=desc["max_spin2"], parity_mode="all" if attempt % 3 else "some",
                            allow_massless=False, max_transitions=120, shuffle_names=bool(desc.get("shuffle_names")))
        spec["l_max"] = 10
        if not spec["parity_nodes"]:
            continue
        r = R.build_synth(spec)
        if r is None:
            continue
        if formalism == "both":
            spec2 = dict(spec, formalism="canonical-helicity", max_transitions=600)
            r2 = R.build_synth(spec2)
            if r2 is None:
                continue
            return r, r2
        return r
    return None


def _set_naming(b, naming, defaults=None):
    flags = naming or defaults   # None: the defaults of this builder's name generator (helicity and canonical differ)
    if flags is None:
        return
    b.naming.insert_parent_helicities = flags["parent"]
    b.naming.insert_child_helicities = flags["child"]


def _formulate(ctx, reaction, naming=None, couplings=False, history=None):
    from ampform import get_builder
    ctx["log"].clear()
    b = get_builder(reaction)
    defaults = {"parent": b.naming.insert_parent_helicities, "child": b.naming.insert_child_helicities}
    for earlier in (history or []):   # earlier formulate() calls of the *same* builder under other naming flags
        _set_naming(b, earlier, defaults)
        b.formulate()
        ctx["log"].clear()
    _set_naming(b, naming, defaults if history else None)
    model = b.formulate()
    return model, list(ctx["log"].records)


def _chain_values(model, records, rng, n=4, point=None, pv=None):
    import sympy as sp
    from vmon.numeval import eval_expr
    from vmon.refmodel import helicity as RH
    canonical = model.reaction_info.formalism != "helicity"
    P = set(model.parameter_defaults)
    expr_full = model.expression
    if point is None:
        point = RH.random_point([s for s in expr_full.free_symbols if s not in P and isinstance(s, sp.Symbol)], rng, n)
    if pv is None:
        pv = {s: complex(rng.normal(), rng.normal()) for s in P if s.name.startswith(("C_", "H_"))}
    out = []
    for tr, expr in records:
        coeff_syms = tuple(sorted((s for s in expr.free_symbols if s in P and s.name.startswith(("C_", "H_"))), key=str))
        coeff = np.prod([pv[s] for s in coeff_syms]) if coeff_syms else 1.0
        vals = {s: (pv[s] if s in pv else point[s.name]) for s in expr.free_symbols if isinstance(s, sp.Symbol)}
        got = np.asarray(eval_expr(expr, vals)) * np.ones(n)
        ref = RH.chain_reference(tr, point, canonical) * coeff * np.ones(n)
        scale = np.abs(ref).max()
        sign = 0
        if scale > 1e-13:
            ratio = got / np.where(np.abs(ref) > 1e-6 * scale, ref, np.nan)
            r = ratio[np.isfinite(ratio)]
            if len(r) and np.allclose(r, np.sign(r.real.mean()), atol=1e-8):
                sign = int(np.sign(r.real.mean()))
            else:
                sign = None  # not a unit sign: C02's business, reported here as well
        out.append({"tr": tr, "expr": expr, "coeff": coeff_syms, "sign": sign, "vanishing": scale <= 1e-13})
    return out, point, pv


def run_case(case, rec, ctx):
    from vmon.props.c01 import make_reaction
    from vmon.refmodel import helicity as RH
    from vmon.workloads import reactions as R
    rng = np.random.default_rng([case["seed"]])
    desc = case["reaction"]
    if case["kind"] == "sign":
        reaction = _synth(desc, "helicity") if desc["kind"] == "synth" else make_reaction(desc)[0]
        if reaction is None:
            rec.note("synthetic_reaction_not_constructible")
            return
        label = desc.get("name") or f"synth:{desc['seed']}"
        t0 = reaction.transitions[0]
        etas = {n: RH.eta(RH.node_info(t0, n)) for n in sorted(t0.topology.nodes)}
        constrained = [n for t in reaction.transitions[:1] for n in sorted(t.topology.nodes) if t.interactions[n].parity_prefactor is not None]
        if not any(t.interactions[n].parity_prefactor is not None for t in reaction.transitions for n in t.topology.nodes):
            rec.note("no_parity_conserving_node")
            return
        # helicities of the children must be part of the name: otherwise chains share a coefficient because the name
        # ignores helicities, not because they are parity partners (out of the statement's scope)
        naming, history = [(None, None), ({"parent": False, "child": True}, None), ({"parent": True, "child": True}, None),
                           # builder histories: the same builder formulated under other flags before
                           ({"parent": True, "child": True}, [None]), (None, [{"parent": True, "child": True}]),
                           (None, [{"parent": False, "child": False}, {"parent": True, "child": True}])][case["naming"] % 6]
        model, records = _formulate(ctx, reaction, naming, history=history)
        chains, _, _ = _chain_values(model, records, rng)
        rec.hit("judge:sign")
        groups: dict = {}
        for c in chains:
            groups.setdefault(c["coeff"], []).append(c)
        feats = {"n_constrained_nodes": len(constrained), "naming": str(naming), "kind": desc["kind"], "builder_history": len(history or []),
                 "unlike_eta": len({etas[n] for n in constrained if etas[n] is not None}) > 1}
        max_share = max((len(g) for g in groups.values()), default=0)
        n_pairs = 0
        for coeff, g in groups.items():
            pairs = list(itertools.combinations(range(len(g)), 2))
            if len(pairs) > 40:
                pairs = [pairs[i] for i in sorted(rng.choice(len(pairs), 40, replace=False))]
            for ia, ib in pairs:
                a, b = g[ia], g[ib]
                if a["tr"].topology != b["tr"].topology or a["vanishing"] or b["vanishing"]:
                    continue
                expected = 1
                flips = []
                comparable = True
                for n in sorted(a["tr"].topology.nodes):
                    ia_, ib_ = RH.node_info(a["tr"], n), RH.node_info(b["tr"], n)
                    la, lb = (ia_["l1"], ia_["l2"]), (ib_["l1"], ib_["l2"])
                    if la == lb:
                        continue
                    if la == (-lb[0], -lb[1]) and a["tr"].interactions[n].parity_prefactor is not None:
                        e = RH.eta(ia_)
                        if e is None:
                            comparable = False
                            break
                        expected *= e
                        flips.append(n)
                    else:
                        comparable = False  # they share the symbol for another reason (helicities not part of the name)
                        break
                if not comparable:
                    continue
                n_pairs += 1
                ok = a["sign"] is not None and b["sign"] is not None and a["sign"] * b["sign"] == expected
                def _name_order_differs(n):
                    ids = sorted(a["tr"].topology.get_edge_ids_outgoing_from_node(n))
                    names = [a["tr"].states[i].particle.name for i in ids]
                    return names != sorted(names)
                name_vs_id = any(_name_order_differs(n) for n in flips)
                pattern = (tuple(etas[n] for n in constrained), tuple(flips), name_vs_id)
                rec.case(pattern, (feats["unlike_eta"] and len(constrained) >= 2) or len(g) >= 3,
                         n_constrained=len(constrained), n_flipped=len(flips), unlike_eta=feats["unlike_eta"],
                         daughter_name_order_differs_from_id_order=name_vs_id)
                rec.check(ok, "parity_sign",
                          f"{label}: chains {_cs(a['tr'])} and {_cs(b['tr'])} share {[str(s) for s in coeff]} and differ by reversing the daughter helicities at node(s) {flips}; "
                          f"their relative sign is {None if a['sign'] is None or b['sign'] is None else a['sign'] * b['sign']} but prod eta over the flipped nodes = {expected} "
                          f"(eta per node: {etas})",
                          {"a": _cs(a["tr"]), "b": _cs(b["tr"]), "expr_a": str(a["expr"])[:300], "expr_b": str(b["expr"])[:300]},
                          {**feats, "flipped_nodes": len(flips), "all_nodes_constrained": len(constrained) == len(etas)})
        rec.sample(f"sign:{desc['kind']}", {"reaction": R.reaction_summary(reaction), "naming": str(naming), "eta_per_node": {str(k): v for k, v in etas.items()},
                                            "coefficient_groups": len(groups), "largest_group": max_share, "pairs_judged": n_pairs})
        return
    # ---------------------------------------------------------------- formalism equivalence
    if desc["kind"] == "synth":
        pair = _synth(desc, "both")
        if pair is None:
            rec.note("synthetic_pair_not_constructible")
            return
        r_hel, r_can = pair
        label = f"synth:{desc['seed']}"
    else:
        r_hel, r_can = R.load_fixture(desc["name"] + ".hel"), R.load_fixture(desc["name"] + ".can")
        label = desc["name"]
    hk = {RH.helicity_key(t) for t in r_hel.transitions}
    ck = {RH.helicity_key(t) for t in r_can.transitions}
    if hk != ck:
        rec.note("helicity_sets_differ_between_formalisms")
        return
    if not any(t.interactions[n].parity_prefactor is not None for t in r_hel.transitions for n in t.topology.nodes):
        rec.note("no_parity_conserving_node")
    # "the same parity-conserving interactions": wherever the helicity reaction constrains a node by parity, every LS
    # combination of the canonical reaction must obey P = P1 P2 (-1)^L there (qrules mixes in weak solutions otherwise)
    hel_constrained = {(t.topology, n) for t in r_hel.transitions for n in t.topology.nodes if t.interactions[n].parity_prefactor is not None}
    for t in r_can.transitions:
        for n_ in t.topology.nodes:
            if (t.topology, n_) in hel_constrained:
                i_ = RH.node_info(t, n_)
                if i_["P"] is None or i_["P1"] is None or i_["P2"] is None or int(i_["P"]) != int(i_["P1"]) * int(i_["P2"]) * (-1) ** int(i_["L"]):
                    rec.note("canonical_set_contains_parity_violating_LS")
                    return
    m_can, rec_can = _formulate(ctx, r_can)
    m_hel, rec_hel = _formulate(ctx, r_hel)
    rec.hit("judge:equivalence")
    import sympy as sp
    from vmon.numeval import eval_expr
    n = 4
    Pc, Ph = set(m_can.parameter_defaults), set(m_hel.parameter_defaults)
    point = RH.random_point([s for s in (m_can.expression.free_symbols | m_hel.expression.free_symbols) if s not in Pc and s not in Ph and isinstance(s, sp.Symbol)], rng, n)
    pv_can = {s: complex(rng.normal(), rng.normal()) for s in Pc if s.name.startswith("C_")}
    # H(t) = sum over LS chains with the helicities of t of  C_LS x prod_nodes CG CG
    H: dict = {}
    for tr, expr in rec_can:
        cs = [s for s in expr.free_symbols if s in pv_can]
        coeff = np.prod([pv_can[s] for s in cs]) if cs else 1.0
        H[RH.helicity_key(tr)] = H.get(RH.helicity_key(tr), 0) + coeff * RH.cg_factor(tr)
    hel_chains, _, _ = _chain_values(m_hel, rec_hel, rng, n=n, point=point, pv={s: 1.0 + 0j for s in Ph if s.name.startswith("C_")})
    pv_hel = {}
    inconsistent = []
    for c in hel_chains:
        if len(c["coeff"]) != 1 or c["sign"] in (None, 0):
            continue
        sym = c["coeff"][0]
        val = H.get(RH.helicity_key(c["tr"]), 0) * c["sign"]
        if sym in pv_hel:
            if abs(pv_hel[sym] - val) > 1e-9 * (1 + abs(val)):
                inconsistent.append((str(sym), _cs(c["tr"]), complex(pv_hel[sym]), complex(val)))
        else:
            pv_hel[sym] = val
    t0 = r_hel.transitions[0]
    constrained = [nd for nd in sorted(t0.topology.nodes) if t0.interactions[nd].parity_prefactor is not None]
    etas = [RH.eta(RH.node_info(t0, nd)) for nd in constrained]
    fin = list(r_hel.final_state.values())
    feats = {"n_constrained_nodes": len(constrained), "unlike_eta": len(set(etas)) > 1, "kind": desc["kind"],
             "identical_spinful_particles": any([q.name for q in fin].count(p_.name) > 1 and p_.spin > 0 for p_ in fin)}
    rec.check(not inconsistent, "coefficient_inconsistent",
              f"{label}: the Clebsch-Gordan expansion demands two different values for one helicity coefficient: {inconsistent[:2]}",
              {"conflicts": [str(x) for x in inconsistent[:5]]}, feats)
    for s in Ph:
        if s.name.startswith("C_") and s not in pv_hel:
            pv_hel[s] = 0.0
    vals_h = {**{s: point[s.name] for s in m_hel.expression.free_symbols if isinstance(s, sp.Symbol) and s.name in point}, **pv_hel}
    vals_c = {**{s: point[s.name] for s in m_can.expression.free_symbols if isinstance(s, sp.Symbol) and s.name in point}, **pv_can}
    Ih = np.asarray(eval_expr(m_hel.expression, vals_h)).real * np.ones(n)
    Ic = np.asarray(eval_expr(m_can.expression, vals_c)).real * np.ones(n)
    rec.case(("equiv", label), len(constrained) >= 2 and feats["unlike_eta"] or len(rec_hel) >= 6, n_constrained=len(constrained), unlike_eta=feats["unlike_eta"])
    rec.sample(f"equiv:{desc['kind']}", {"reaction": R.reaction_summary(r_hel), "helicity_chains": len(rec_hel), "canonical_chains": len(rec_can),
                                         "eta_constrained_nodes": etas, "I_helicity": Ih[:2], "I_canonical": Ic[:2]})
    rec.check(bool(np.allclose(Ih, Ic, rtol=1e-8, atol=1e-12)), "formalism_equivalence",
              f"{label}: with random LS coefficients the canonical intensity is {Ic[:2]} but the helicity model with the coefficients given by the "
              f"Clebsch-Gordan expansion gives {Ih[:2]}", {"I_helicity": Ih, "I_canonical": Ic}, feats)


def _cs(tr):
    return "(" + ", ".join(f"{e}:{float(s.spin_projection):+g}" for e, s in sorted(tr.states.items())) + ")"


META = {
    "technique": "recording hook on the builder's per-chain method + offline sign monitor over coefficient-sharing chain pairs (eta from particle parities) and differential observation of helicity vs canonical builds of the same reaction with CG-expanded coefficients",
    "level_text": "For every helicity-formalism reaction with parity-conserving nodes (all fixtures, synthetic reactions with 1..4 constrained nodes of like and unlike eta; four naming-flag settings) every pair of chains that shares a coefficient symbol and differs only by reversed daughter helicities at some nodes is judged: relative sign == product of eta over exactly those nodes. For every fixture pair and synthetic pair available in both formalisms, random complex LS coefficients are drawn, the helicity coefficients are computed from the Clebsch-Gordan expansion of the unprefactored representative, and both intensities are compared at 4 random points. Builder histories (earlier formulate() calls under other naming flags on the same builder) and shuffled particle names (daughter name order != id order) are part of the workload.",
    "level_note": "eta from qrules particle parities; chain values via the C02 reference; pairs that share a symbol for a reason other than a parity flip (helicities left out of the name) are not judged.",
}
