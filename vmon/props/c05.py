"""C05 — spin alignment never changes a single-topology intensity."""
from __future__ import annotations

from fractions import Fraction

import numpy as np

ID = "C05"
LEVEL = "exploration"
RULE = ("case = (single-topology reaction with complete helicity sets, dynamics): the unaligned model, the axis-angle model "
        "and the three DPD models (reference subsystem 1, 2, 3; three-body only, after relabel_edge_ids) of the same reaction "
        "are evaluated through the full pipeline on the same events with the same parameter values; plus contracts on "
        "create_spin_range (exhaustive grid s = 0, 1/2, ..., 10 x both flags) and formulate_helicity_rotation (index pool "
        "of the returned PoolSum). distinct = (spin content, massless pattern, alignment); non-trivial iff the final state "
        "carries spin and the intensity varies over the events")
ASSUMPTIONS = ["equality to 1e-8 relative to max(I) at 24 events", "the spin range of a massless particle with integer spin may omit 0 (documented flag); nothing else may be omitted"]
FLOORS = {"quick": {"evaluations": 300, "distinct_nontrivial": 15, "hooks": ["create_spin_range", "formulate_helicity_rotation", "formulate_rotation_chain", "pipeline:aligned"]},
          "thorough": {"evaluations": 3000, "distinct_nontrivial": 60, "hooks": ["create_spin_range", "formulate_helicity_rotation", "formulate_rotation_chain", "pipeline:aligned"]}}
CASE_TIMEOUT = {"quick": 400, "thorough": 1500}
WALL_BUDGET = {"quick": 900, "thorough": 10800}


def plan(tier, seed):
    from vmon.workloads import reactions as R
    rng = np.random.default_rng([seed, 5])
    cases = [{"kind": "spin_range", "cost": 1.0}]
    skip = ("psi2s", "lambdab", "jpsi_p_pbar_pi0__n1440_n1520.", "jpsi_k0_sigmap_pbar__sigma1750_full", "jpsi_lambda", "jpsi_xim")
    for name in R.fixture_names():
        if tier == "quick" and (name.endswith(".can") or name.startswith(skip)):
            continue
        cases.append({"kind": "equal", "reaction": {"kind": "fixture", "name": name}, "dynamics": "bw", "seed": int(rng.integers(1 << 30)), "cost": 20.0})
    n_syn = 28 if tier == "quick" else 220
    for k in range(n_syn):
        cases.append({"kind": "equal", "reaction": {"kind": "synth", "seed": int(rng.integers(1 << 30)), "n_final": [3, 3, 3, 4][k % 4],
                                                    "formalism": "helicity" if (k % 4 == 3 and tier == "quick") else ["helicity", "canonical-helicity"][k % 2],
                                                    "max_spin2": [2, 3, 5, 4][k % 4], "massless": k % 3 == 0},
                      "dynamics": ["bw", "none"][k % 2], "seed": int(rng.integers(1 << 30)), "cost": 15.0, "warmup": k % 2 == 1})
    # a massless particle listed before a recoil system that contains a massive final-state particle of integer
    # spin >= 1: the massive particle's rotation chain passes a node whose helicity state is the massless one
    for k in range(6 if tier == "quick" else 40):
        cases.append({"kind": "equal", "reaction": {"kind": "synth", "seed": int(rng.integers(1 << 30)), "n_final": [3, 3, 4][k % 3],
                                                    "formalism": "helicity", "max_spin2": 2, "massless": True,
                                                    "want": "massless_before_massive_vector"},
                      "dynamics": ["bw", "none"][k % 2], "seed": int(rng.integers(1 << 30)), "cost": 15.0})
    return cases


def setup_worker(rec, ctx):
    import ampform.helicity.align._spin as SP
    import ampform.helicity.align.axisangle as AX
    from vmon.core import attach

    def closed_form(s, no_zero):
        s = Fraction(s).limit_denominator(2)
        vals = [float(-s + k) for k in range(int(2 * s) + 1)]
        if no_zero and len(vals) > 1 and s.denominator == 1:
            vals = [v for v in vals if v != 0.0]
        return vals
    ctx["closed_form"] = closed_form

    def ensure_range(old, result, spin_magnitude, no_zero_spin=False):
        want = closed_form(float(spin_magnitude), no_zero_spin)
        rec.check(list(result) == want, "spin_range", f"create_spin_range({spin_magnitude}, no_zero_spin={no_zero_spin}) = {result}, expected {want}",
                  {"spin": float(spin_magnitude), "no_zero_spin": no_zero_spin}, {"hook": "create_spin_range"})

    def on_raise_range(old, exc, spin_magnitude, no_zero_spin=False):
        rec.check(False, "spin_range_raises", f"create_spin_range({spin_magnitude}, no_zero_spin={no_zero_spin}) raised {exc!r}",
                  None, {"hook": "create_spin_range", "half_integer": bool(float(spin_magnitude) % 1)})

    attach(SP, "create_spin_range", hook="create_spin_range", rec=rec, ensure=ensure_range, on_raise=on_raise_range)

    def ensure_rot(old, result, spin_magnitude, spin_projection, m_prime, alpha, beta, gamma, no_zero_spin=False):
        idx = result.indices
        pool = [float(v) for v in idx[0][1]] if len(idx) == 1 else None
        want = closed_form(float(spin_magnitude), no_zero_spin)
        rec.check(pool is not None and sorted(pool) == want and idx[0][0] == m_prime, "rotation_index_pool",
                  f"formulate_helicity_rotation(s={spin_magnitude}, no_zero_spin={no_zero_spin}) sums over {pool}, expected {want}",
                  {"spin": float(spin_magnitude)}, {"hook": "formulate_helicity_rotation"})
    attach(AX, "formulate_helicity_rotation", hook="formulate_helicity_rotation", rec=rec, ensure=ensure_rot)

    def ensure_chain(old, result, transition, rotated_state_id):
        # every rotation of one final-state particle's spin state sums over that particle's own projections:
        # -s..s in unit steps, where only a massless particle of integer spin may omit 0
        part = transition.states[rotated_state_id].particle
        want = closed_form(float(part.spin), part.mass == 0.0)
        pools = [sorted(float(v) for v in values) for _, values in result.indices]
        bad = [p_ for p_ in pools if p_ != want]
        rec.check(not bad and len(pools) >= 1, "rotation_pool",
                  f"formulate_rotation_chain(state {rotated_state_id}: {part.name}, spin {float(part.spin)}, mass {part.mass}) sums over "
                  f"{pools}, expected every index to run over {want}",
                  {"particle": part.name, "pools": pools}, {"hook": "formulate_rotation_chain", "rotated_particle_massless": part.mass == 0.0})
    attach(AX, "formulate_rotation_chain", hook="formulate_rotation_chain", rec=rec, ensure=ensure_chain)


def _reaction(case):
    from vmon.props.c01 import make_reaction
    from vmon.workloads import reactions as R
    desc = case["reaction"]
    if desc["kind"] == "fixture":
        return make_reaction(desc)
    rng0 = np.random.default_rng([desc["seed"]])
    for attempt in range(400 if desc.get("want") else 40):
        spec = R.synth_spec(rng0, n_final=desc["n_final"], formalism=desc["formalism"], max_spin2=desc["max_spin2"] if desc["n_final"] == 3 else 2,
                            allow_massless=desc["massless"], max_transitions=80, shuffle_names=desc["seed"] % 2 == 1)
        if desc.get("want") == "massless_before_massive_vector":
            fin = sorted(int(k) for k in spec["mass"] if int(k) >= 0 and int(k) < spec["n_final"])
            first = str(fin[0])
            spec["mass"][first] = 0.0
            if spec["spins2"][first] == 0:
                spec["spins2"][first] = 2
            if not any(spec["spins2"][str(i)] == 2 and spec["mass"][str(i)] > 0 for i in fin[1:]):
                continue
            spec["parity_nodes"] = []
        r = R.build_synth(spec)
        if r is not None and R.has_complete_helicities(r):
            return r, f"synth:{desc['seed']}"
    return None, None


def run_case(case, rec, ctx):
    import sympy as sp
    from ampform.helicity.align._spin import create_spin_range
    from ampform.helicity.align.axisangle import formulate_helicity_rotation
    if case["kind"] == "spin_range":
        rec.case(("spin_range",), True, kind="spin_range")
        for two_s in range(0, 21):
            for flag in (False, True):
                try:
                    create_spin_range(two_s / 2, no_zero_spin=flag)   # judged by the contract
                    create_spin_range(sp.Rational(two_s, 2), flag)
                except Exception:  # noqa: BLE001, S110
                    pass
                if two_s <= 8:
                    try:
                        a, b, c, i = sp.symbols("a b c i")
                        formulate_helicity_rotation(sp.Rational(two_s, 2), sp.Rational(two_s, 2), i, a, b, c, no_zero_spin=flag)
                    except Exception as exc:  # noqa: BLE001
                        rec.check(False, "rotation_raises", f"formulate_helicity_rotation(s={two_s}/2, no_zero_spin={flag}) raised {exc!r}", None,
                                  {"hook": "formulate_helicity_rotation", "half_integer": bool(two_s % 2)})
        # call histories in one process: every flag order, repeated calls, and a caller that modifies the list it received
        # (each call is judged by the contract on create_spin_range; the function must behave as a pure function)
        hrng = np.random.default_rng([ctx["seed"], 5, 99])
        for two_s in range(0, 9):
            for flags in ((True, False), (True, True, False), (False, True, False, False)):
                for flag in flags:
                    create_spin_range(two_s / 2, no_zero_spin=flag)
            got = create_spin_range(two_s / 2)
            try:
                got.clear()            # the caller owns the returned list
            except AttributeError:
                pass
            create_spin_range(two_s / 2)
        for _ in range(200):
            create_spin_range(int(hrng.integers(0, 9)) / 2, no_zero_spin=bool(hrng.integers(2)))
        rec.sample("spin_range", {"grid": "s = 0, 1/2, ..., 10 x no_zero_spin in (False, True)", "exhaustive_on_grid": True,
                                  "histories": "all flag orders per s <= 4, returned list cleared by the caller, 200 random calls"})
        return
    from vmon.core import digest
    from vmon.numeval import ModelEvaluator
    from vmon.workloads import configs as C
    from vmon.workloads import reactions as R
    from vmon.workloads.events import gen_events
    reaction, name = _reaction(case)
    if reaction is None:
        rec.note("synthetic_reaction_not_constructible")
        return
    if case.get("warmup"):
        # process history: an aligned model of another reaction (massless photon: the no_zero_spin path) was formulated
        # earlier in this process; alignment code must not keep state between models
        wr = R.load_fixture("jpsi_gamma_pi0_pi0__f0.hel")
        wcfg = C.default_config()
        wcfg["align"] = "axisangle"
        C.build(wr, wcfg)[1].formulate()
        rec.note("warmup:photon_axisangle_model_formulated_first")
    if len(R.topologies_of(reaction)) != 1 or not R.has_complete_helicities(reaction):
        rec.note("not_single_topology_with_complete_helicities")
        return
    n = len(reaction.final_state)
    if n < 3:
        rec.note("two_body:no_alignment_applicable")
        return
    rng = np.random.default_rng([case["seed"]])
    dyn = [{"select": "name", "target": nm, "builder": "bw"} for nm in C.resonances(reaction)] if case["dynamics"] == "bw" else []
    finals = reaction.final_state
    massless = tuple(sorted(i for i, p in finals.items() if p.mass == 0))
    spinful_final = any(p.spin > 0 for p in finals.values())
    feats0 = {"n_final": n, "formalism": reaction.formalism,
              "massless_spinful_final_state": any(p.mass == 0 and p.spin > 0 for p in finals.values()),
              "massless_half_integer": any(p.mass == 0 and float(p.spin) % 1 for p in finals.values())}
    # reference: unaligned
    cfg0 = C.default_config()
    cfg0["dynamics"] = dyn
    r0, b0 = C.build(reaction, cfg0)
    m0 = b0.formulate()
    pv_named = {s.name: v for s, v in C.random_parameters(m0, rng).items()}
    fm = R.final_state_masses(r0)
    ids = sorted(fm)
    n_ev = 24
    ev = gen_events(R.initial_mass(r0), [fm[i] for i in ids], n_ev, rng, ids=ids)
    I0, _ = ModelEvaluator(m0, {s: pv_named[s.name] for s in m0.parameter_defaults})(ev)
    I0 = np.asarray(I0).real
    scale = np.abs(I0).max()
    variation = (I0.max() - I0.min()) / scale if scale else 0
    aligns = ["axisangle"] + (["dpd1", "dpd2", "dpd3"] if n == 3 else [])
    # four-body axis-angle kinematics (Wigner rotations through three boosts) take minutes to unfold: thorough tier only
    if (n >= 4 and ctx["tier"] == "quick") or C.axis_angle_cost(reaction) > (3000 if ctx["tier"] == "quick" else 40000):
        aligns.remove("axisangle")
        rec.note("axisangle_skipped_cost")
    if n == 3 and C.dpd_cost(reaction) > (15000 if ctx["tier"] == "quick" else 300000):
        aligns = [a for a in aligns if not a.startswith("dpd")]
        rec.note("dpd_skipped_cost")
    rec.sample(f"{case['reaction']['kind']}", {"reaction": R.reaction_summary(reaction), "alignments": aligns, "variation_over_events": variation, "I0": I0[:2]})
    for align in aligns:
        cfg = C.default_config()
        cfg["dynamics"] = dyn
        cfg["align"] = align
        label = f"{name} [{align}, dynamics={case['dynamics']}]"
        feats = {**feats0, "align": align.rstrip("123"), **R.massless_alignment_features(reaction, align)}
        try:
            r1, b1 = C.build(reaction, cfg)
            m1 = b1.formulate()
        except Exception as exc:  # noqa: BLE001
            rec.check(False, "aligned_formulate_raises", f"{label}: formulating the aligned model raised {type(exc).__name__}: {str(exc)[:200]}", None, feats)
            continue
        shift = 1 if align.startswith("dpd") and set(reaction.final_state) != {1, 2, 3} else 0
        ev1 = {i + shift: p for i, p in ev.items()}
        try:
            I1, _ = ModelEvaluator(m1, {s: pv_named[s.name] for s in m1.parameter_defaults if s.name in pv_named})(ev1)
        except Exception as exc:  # noqa: BLE001
            rec.check(False, "aligned_not_evaluable", f"{label}: aligned model cannot be evaluated: {type(exc).__name__}: {str(exc)[:200]}", None, feats)
            continue
        rec.hit("pipeline:aligned")
        I1 = np.asarray(I1)
        dev = np.abs(I1 - I0).max() / scale if np.isfinite(I1).all() else np.inf
        j = int(np.argmax(np.abs(I1 - I0))) if np.isfinite(I1).all() else 0
        rec.case(digest((R.spin_content(reaction), massless, align, reaction.formalism)), spinful_final and variation > 0.01,
                 align=align.rstrip("123"), n_final=n, formalism=reaction.formalism, spinful_final=spinful_final, massless=bool(massless))
        rec.check(bool(dev <= 1e-8), "alignment_changes_intensity",
                  f"{label}: aligned intensity {I1[j]} != unaligned intensity {I0[j]} (single topology; max relative deviation {dev:.3g}; final-state spins "
                  f"{[float(p.spin) for p in finals.values()]}, massless ids {list(massless)})",
                  {"I_unaligned": I0[j], "I_aligned": I1[j], "event": {i: ev[i][j] for i in ids}}, feats)


META = {
    "technique": "runtime contracts on create_spin_range / formulate_helicity_rotation and differential observation of unaligned vs axis-angle vs DPD(1,2,3) builds of the same single-topology reaction through the full evaluation pipeline",
    "level_text": "create_spin_range is judged on the exhaustive grid s = 0..10 (half-integer steps) x both flags and wherever any workload calls it; formulate_helicity_rotation's index pool is judged on every call made while formulating aligned models; every single-topology fixture (and synthetic 3-/4-body reactions with final-state spins up to 5/2 and massless particles) is built unaligned, with axis-angle and with all three DPD reference subsystems and the intensities are compared at 24 events with shared random parameters; an exception while formulating or evaluating an aligned model is a violation. create_spin_range is also driven through call histories (all flag orders, caller clears the returned list, 200 random calls), formulate_rotation_chain is judged per rotated particle, and half of the synthetic cases formulate an aligned photon model first.",
    "level_note": "Equality to 1e-8 of max(I); axis-angle models whose alignment sum exceeds the harness budget are skipped (counted in the evidence).",
}
