"""C11 — all phase-space-factor variants agree where they must.

Differential observation of the five PhaseSpaceFactorProtocol classes and
BreakupMomentumSquared through route A (doit+lambdify, float and complex input) and route
B (interpreter through the classes' own evaluate()).
"""
from __future__ import annotations

import itertools

import numpy as np

ID = "C11"
LEVEL = "exploration"
RULE = ("case = (identity, s-stratum, mass-ratio class, input dtype); each case draws 64 (s, m1, m2) points; "
        "distinct = that tuple; non-trivial iff the stratum is not 'asymptotic' and the identity relates two "
        "different implementations (not a self-consistency check)")
ASSUMPTIONS = ["independent closed form 2q/sqrt(s) and Chew-Mandelstam continuation in numpy as reference",
               "s is a real symbol without sign assumption; masses positive"]
FLOORS = {"quick": {"evaluations": 300, "distinct_nontrivial": 30, "hooks": ["lambdify:route_A", "interpreter:route_B"]},
          "thorough": {"evaluations": 3000, "distinct_nontrivial": 40, "hooks": ["lambdify:route_A", "interpreter:route_B"]}}
CASE_TIMEOUT = {"quick": 120, "thorough": 300}

CLASSES = ["PhaseSpaceFactor", "PhaseSpaceFactorAbs", "PhaseSpaceFactorComplex", "PhaseSpaceFactorSWave",
           "EqualMassPhaseSpaceFactor"]
S_STRATA = ["negative", "below_pseudo", "between", "thr_minus", "thr_plus", "above", "asymptotic"]
MASS_CLASSES = ["equal", "nearly_equal", "ratio<10", "ratio<1e4"]
IDENTITIES = ["real_part_above", "complex_vs_abs", "equal_mass_vs_swave", "continuity", "q2_symmetry_zeros",
              "routes_agree", "mass_supply"]
EPS = np.finfo(float).eps


def plan(tier: str, seed: int) -> list[dict]:
    reps = 1 if tier == "quick" else 200
    cases = []
    for rep in range(reps):
        for ident in IDENTITIES:
            for mc in MASS_CLASSES:
                if ident in ("equal_mass_vs_swave", "mass_supply") and mc != "equal":
                    continue
                strata = {
                    "real_part_above": ["thr_plus", "above", "asymptotic"],
                    "complex_vs_abs": ["between", "thr_minus"],
                    "equal_mass_vs_swave": S_STRATA,
                    "continuity": ["thr_minus"],
                    "q2_symmetry_zeros": ["negative", "between", "above"],
                    "routes_agree": S_STRATA,
                    "mass_supply": S_STRATA,
                }[ident]
                for st in strata:
                    for dt in ("float", "complex"):
                        cases.append({"identity": ident, "s": st, "masses": mc, "dtype": dt, "rep": rep, "cost": 0.2})
    return cases


def setup_worker(rec, ctx) -> None:
    import sympy as sp
    from ampform.dynamics import phasespace as P

    s = sp.Symbol("s", real=True)
    m1, m2 = sp.symbols("m1 m2", positive=True)
    ctx["sym"] = (s, m1, m2)
    ctx["F"] = {}
    ctx["E"] = {}
    for name in [*CLASSES, "BreakupMomentumSquared"]:
        expr = getattr(P, name)(s, m1, m2)
        ctx["E"][name] = expr
        ctx["F"][name] = sp.lambdify([s, m1, m2], expr.doit(), "numpy")
        rec.hit("lambdify:route_A")
    # other ways of supplying equal masses: one shared symbol for both daughters
    m = sp.Symbol("m", positive=True)
    ctx["F_same"] = {name: sp.lambdify([s, m], getattr(P, name)(s, m, m).doit(), "numpy") for name in CLASSES}
    ctx["P"] = P


def _masses(mc, n, rng):
    m1 = 10 ** rng.uniform(-2, 1, n)
    if mc == "equal":
        m2 = m1.copy()
    elif mc == "nearly_equal":
        m2 = m1 * (1 + 10 ** rng.uniform(-9, -3, n))
    elif mc == "ratio<10":
        m2 = m1 * rng.uniform(1.1, 10, n)
    else:
        m2 = m1 * 10 ** rng.uniform(1, 4, n)
    swap = rng.uniform(size=n) < 0.5
    return np.where(swap, m2, m1), np.where(swap, m1, m2)


def _s_values(st, m1, m2, rng):
    n = len(m1)
    thr, pth = (m1 + m2) ** 2, (m1 - m2) ** 2
    u = rng.uniform(0.02, 0.98, n)
    if st == "negative":
        return -thr * 10 ** rng.uniform(-3, 3, n)
    if st == "below_pseudo":
        return pth * u
    if st == "between":
        return pth + (thr - pth) * u
    if st == "thr_minus":  # stays above the pseudo-threshold also for very unequal masses
        return thr - (thr - pth) * 10 ** rng.uniform(-9, -3, n)
    if st == "thr_plus":
        return thr * (1 + 10 ** rng.uniform(-9, -3, n))
    if st == "above":
        return thr * (1 + 10 ** rng.uniform(-2, 2, n))
    return thr * 10 ** rng.uniform(3, 5, n)


def _call(ctx, name, s, m1, m2, dtype):
    with np.errstate(all="ignore"):
        return np.asarray(ctx["F"][name](s.astype(dtype), m1, m2)) * np.ones(len(s))


def _route_b(ctx, rec, name, s, m1, m2):
    from vmon.numeval import neval
    S, M1, M2 = ctx["sym"]
    rec.hit("interpreter:route_B")
    with np.errstate(all="ignore"):
        return np.asarray(neval(ctx["E"][name], {S: s.astype(complex), M1: m1, M2: m2})) * np.ones(len(s))


def _ref_q(s, m1, m2):
    return np.sqrt((s - (m1 + m2) ** 2) * (s - (m1 - m2) ** 2)) / (2 * np.sqrt(s))


def _kappa(s, m1, m2):
    """Condition number of the documented formulas at (s, m1, m2): cancellation near the (pseudo-)threshold
    (rho^2 = 1 - thr/s), in log((1+rho)/(1-rho)) resp. log(m1^2+m2^2-s+2 sqrt(s) q) for |s| >> m1 m2, and in
    the 1/s terms for s -> 0."""
    thr, pth = (m1 + m2) ** 2, (m1 - m2) ** 2
    with np.errstate(all="ignore"):
        k = 1 + thr / np.abs(s - thr) + np.abs(s) / (m1 * m2) + thr / np.abs(s)
        k = k + np.where(pth > 0, pth / np.abs(s - pth), 0.0)
    return k


def _judge(rec, a, b, s, m1, m2, atol=1e-14, swave=False):
    """ok-mask: |a-b| within 256 eps kappa (relative); points with 256 eps kappa > 1e-3 are not judged.

    ``swave``: the Chew-Mandelstam logarithm log(m1^2+m2^2-s+2 sqrt(s) q) cancels terms of size |s| down to
    (m1 m2)^2/|s|, i.e. its conditioning is (|s|/(m1 m2))^2 (measured: rel. deviation 3e-9 at s/(m1 m2)=2e4)."""
    k = _kappa(s, m1, m2)
    if swave:
        thr = (m1 + m2) ** 2
        # ... and its two terms ~ (m1^2-m2^2)/s log(m1/m2) cancel for very unequal masses (measured: rel. deviation
        # 2e-9 at m1/m2 = 700, thr/|s| = 135)
        k = k + (np.abs(s) / (m1 * m2)) ** 2 + (thr / np.abs(s)) ** 2 + (thr / (m1 * m2)) ** 2 * (1 + thr / np.abs(s))
    rtol = 256 * EPS * k
    ill = rtol > 1e-3
    if ill.any():
        rec.note("ill_conditioned_points_not_judged", int(ill.sum()))
    return _close(a, b, rtol, atol) | ill


def _close(a, b, rtol, atol=0.0):
    a, b = np.asarray(a), np.asarray(b)
    both_nan = np.isnan(a) & np.isnan(b)
    return both_nan | (np.abs(a - b) <= atol + rtol * np.maximum(np.abs(a), np.abs(b)))


def run_case(case, rec, ctx) -> None:
    rng = np.random.default_rng([ctx["seed"], 11, case["idx"]])
    n = 64
    ident, st, mc, dt = case["identity"], case["s"], case["masses"], case["dtype"]
    dtype = float if dt == "float" else complex
    m1, m2 = _masses(mc, n, rng)
    s = _s_values(st, m1, m2, rng)
    if mc == "nearly_equal" and st in ("below_pseudo", "between"):
        pass
    feats = {"identity": ident, "s_stratum": st, "masses": mc, "s_negative": st == "negative"}
    rec.case((ident, st, mc, dt), st != "asymptotic" and ident != "routes_agree", identity=ident, s_stratum=st,
             mass_class=mc, dtype=dt)
    rec.sample(f"{ident}:{st}", {"s": s[0], "m1": m1[0], "m2": m2[0], "dtype": dt})

    def wit(i, **kw):
        return {"s": s[i], "m1": m1[i], "m2": m2[i], "dtype": dt, **kw}

    thr = (m1 + m2) ** 2
    if ident == "mass_supply":
        # equal masses given (A) as two symbols with equal values, (B) as one shared symbol, (C) as equal numbers before doit()
        import sympy as sp
        if dt == "float" and st == "negative":
            rec.note("float_input_negative_s_skipped")
            return
        S_ = ctx["sym"][0]
        for name in CLASSES:
            # only where the statement fixes the value: every variant above threshold; Complex/Abs also between the thresholds;
            # the two Chew-Mandelstam variants on the whole real axis.  (Elsewhere the principal square roots sit on their branch
            # cuts and the sign depends on signed zeros of intermediate results.)
            covered = st in ("thr_plus", "above", "asymptotic") or (name in ("PhaseSpaceFactorComplex", "PhaseSpaceFactorAbs") and st in ("between", "thr_minus")) \
                or name in ("PhaseSpaceFactorSWave", "EqualMassPhaseSpaceFactor")
            if not covered:
                continue
            va = _call(ctx, name, s, m1, m2, dtype)
            with np.errstate(all="ignore"):
                vb = np.asarray(ctx["F_same"][name](s.astype(dtype), m1)) * np.ones(n)
            ok = _judge(rec, vb, va, s, m1, m2, swave=True)
            i = int(np.argmin(ok))
            rec.check(bool(ok.all()), "mass_supply", f"{name}(s, m, m) with one shared mass symbol = {vb[i]} but with two symbols of equal value = {va[i]} at s={s[i]!r}",
                      wit(i, cls=name, shared_symbol=vb[i], two_symbols=va[i]), {**feats, "cls": name, "supply": "shared_symbol"})
            for k in range(2):
                mv = float(m1[k])
                f_num = sp.lambdify([S_], getattr(ctx["P"], name)(S_, sp.Float(mv), sp.Float(mv)).doit(), "numpy")
                sel = np.isclose(m1, mv, rtol=0, atol=0)
                sk = s[sel]
                with np.errstate(all="ignore"):
                    vc = np.asarray(f_num(sk.astype(dtype))) * np.ones(len(sk))
                ok = _judge(rec, vc, va[sel], sk, m1[sel], m2[sel], swave=True)
                i = int(np.argmin(ok))
                rec.check(bool(ok.all()), "mass_supply", f"{name}(s, {mv}, {mv}) with numeric masses before doit() = {vc[i]} but symbolic route = {va[sel][i]} at s={sk[i]!r}",
                          {"s": sk[i], "m": mv, "dtype": dt}, {**feats, "cls": name, "supply": "numbers_before_doit"})
        return
    if ident == "real_part_above":
        ref = 2 * _ref_q(s, m1, m2) / np.sqrt(s)
        # conditioning of q near threshold: relative error ~ eps * thr/(s-thr)
        for name in CLASSES:
            v = _call(ctx, name, s, m1, m2, dtype)
            ok = _judge(rec, np.real(v), ref, s, m1, m2, swave=(name == "PhaseSpaceFactorSWave"))
            i = int(np.argmin(ok))
            rec.check(bool(ok.all()), "real_part", f"Re {name}(s) != 2q/sqrt(s) above threshold: {np.real(v[i])!r} vs {ref[i]!r}",
                      wit(i, cls=name, got=v[i], ref=ref[i]), {**feats, "cls": name})
    elif ident == "complex_vs_abs":
        vc = _call(ctx, "PhaseSpaceFactorComplex", s, m1, m2, dtype)
        va = _call(ctx, "PhaseSpaceFactorAbs", s, m1, m2, dtype)
        ok = _judge(rec, vc, 1j * va, s, m1, m2)
        i = int(np.argmin(ok))
        rec.check(bool(ok.all()), "complex_vs_abs", f"PhaseSpaceFactorComplex != i*PhaseSpaceFactorAbs between thresholds: {vc[i]} vs i*{va[i]}",
                  wit(i, complex=vc[i], abs=va[i]), feats)
    elif ident == "equal_mass_vs_swave":
        ve = _call(ctx, "EqualMassPhaseSpaceFactor", s, m1, m2, dtype)
        vs = _call(ctx, "PhaseSpaceFactorSWave", s, m1, m2, dtype)
        if dt == "float" and st in ("negative",):
            # sqrt of a negative float is NaN by numpy's rules for real input; judge complex input only
            rec.note("float_input_negative_s_skipped")
            return
        # near threshold the log term has conditioning ~ 1/rho
        ok = _judge(rec, ve, vs, s, m1, m2, swave=True)
        i = int(np.argmin(ok))
        rec.check(bool(ok.all()), "equal_mass_vs_swave",
                  f"EqualMassPhaseSpaceFactor != PhaseSpaceFactorSWave for equal masses at s={s[i]!r} (stratum {st}): {ve[i]} vs {vs[i]}",
                  wit(i, equal_mass=ve[i], swave=vs[i]), feats)
        # independent reference: Chew-Mandelstam continuation for equal masses
        m = m1
        x = 1 - 4 * m ** 2 / s
        rh = np.sqrt(np.abs(x))
        with np.errstate(all="ignore"):
            ref = np.where(s < 0, 1j * rh / np.pi * np.log((rh + 1) / np.abs(rh - 1)),
                           np.where(s > thr, rh + 1j * rh / np.pi * np.log((1 + rh) / np.abs(1 - rh)),
                                    2j * rh / np.pi * np.arctan(1 / rh)))
        for name, v in (("EqualMassPhaseSpaceFactor", ve), ("PhaseSpaceFactorSWave", vs)):
            ok = _judge(rec, v, ref, s, m1, m2, swave=(name == "PhaseSpaceFactorSWave"))
            i = int(np.argmin(ok))
            rec.check(bool(ok.all()), "analytic_continuation_reference",
                      f"{name} != Chew-Mandelstam continuation (equal masses) at s={s[i]!r}: {v[i]} vs {ref[i]}",
                      wit(i, cls=name, got=v[i], ref=ref[i]), {**feats, "cls": name})
    elif ident == "continuity":
        for name in ("EqualMassPhaseSpaceFactor", "PhaseSpaceFactorSWave", "PhaseSpaceFactorComplex"):
            if name == "EqualMassPhaseSpaceFactor" and mc not in ("equal",):
                continue
            for e in (1e-3, 1e-5, 1e-7, 1e-9):
                lo = _call(ctx, name, thr * (1 - e), m1, m2, dtype)
                hi = _call(ctx, name, thr * (1 + e), m1, m2, dtype)
                scale = 1 + np.abs(hi) + np.abs(lo)
                ok = np.abs(hi - lo) <= 8 * np.sqrt(e) * scale
                i = int(np.argmin(ok))
                rec.check(bool(ok.all()), "discontinuity", f"{name} jumps at threshold: f(thr(1+{e}))={hi[i]} f(thr(1-{e}))={lo[i]}",
                          wit(i, cls=name, eps=e, hi=hi[i], lo=lo[i]), {**feats, "cls": name})
    elif ident == "q2_symmetry_zeros":
        a = _call(ctx, "BreakupMomentumSquared", s, m1, m2, dtype)
        b = _call(ctx, "BreakupMomentumSquared", s, m2, m1, dtype)
        rec.check(bool(_close(a, b, 8 * EPS).all()), "q2_asymmetric", "BreakupMomentumSquared(s,m1,m2) != (s,m2,m1)", wit(0), feats)
        ref = (s - (m1 + m2) ** 2) * (s - (m1 - m2) ** 2) / (4 * s)
        ok = _close(a, ref, 16 * EPS)
        rec.check(bool(ok.all()), "q2_value", "BreakupMomentumSquared != (s-(m1+m2)^2)(s-(m1-m2)^2)/4s", wit(int(np.argmin(ok)), got=a[int(np.argmin(ok))]), feats)
        for sz, lab in ((thr, "threshold"), ((m1 - m2) ** 2, "pseudo-threshold")):
            if mc == "equal" and lab == "pseudo-threshold":
                continue  # s = 0: 0/0 by definition of q^2
            z = _call(ctx, "BreakupMomentumSquared", sz, m1, m2, dtype)
            ok = np.abs(z) <= 16 * EPS * (m1 + m2) ** 2
            rec.check(bool(ok.all()), "q2_zero", f"BreakupMomentumSquared does not vanish at {lab}", wit(int(np.argmin(ok)), got=z[int(np.argmin(ok))]), feats)
    elif ident == "routes_agree":
        for name in [*CLASSES, "BreakupMomentumSquared"]:
            if name == "PhaseSpaceFactor" and st not in ("thr_plus", "above", "asymptotic"):
                # sqrt(q^2)/sqrt(s) with q^2 < 0 sits exactly on the branch cut of the plain square root: the
                # sign of a zero imaginary part decides, which is not something the statement constrains
                continue
            a = _call(ctx, name, s, m1, m2, complex)
            b = _route_b(ctx, rec, name, s, m1, m2)
            ok = _judge(rec, a, b, s, m1, m2, atol=1e-13, swave=(name == "PhaseSpaceFactorSWave")) | (~np.isfinite(a) & ~np.isfinite(b))
            i = int(np.argmin(ok))
            rec.check(bool(ok.all()), "routes_disagree", f"{name}: lambdified doit() {a[i]} != unfolded evaluate() {b[i]} at s={s[i]!r}",
                      wit(i, cls=name, route_A=a[i], route_B=b[i]), {**feats, "cls": name})


META = {
    "technique": "differential runtime observation of the five phase-space-factor implementations (lambdified and interpreted) against each other and a numpy closed form, stratified in s and mass ratio",
    "level_text": "The identities of the statement are evaluated on the real classes through their generated NumPy code (float and complex input) and through an interpreter that unfolds evaluate(), on (s, m1, m2) drawn from seven s-strata (negative .. 1e7 x threshold, within 1e-9 of threshold) x four mass-ratio classes; held = no sampled point broke an identity beyond a conditioning-scaled tolerance. Equal masses are also supplied as one shared symbol and as numbers before doit().",
    "level_note": "s is a real symbol (no sign assumption) and masses are positive symbols; numpy float64; points exactly at s=0 and exactly at threshold are approached, not hit.",
}
