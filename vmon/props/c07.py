"""C07 — kinematic variables mean what their names say, in every topology."""
from __future__ import annotations

import itertools

import numpy as np

ID = "C07"
LEVEL = "exploration"
RULE = ("case = (n final states 2..5, isobar topology, relabeling/permutation of final-state and intermediate edge ids, "
        "event stratum, cse); post-conditions on compute_helicity_angles / compute_invariant_masses / "
        "HelicityAdapter.create_expressions evaluate every returned expression (route A) on generated events and "
        "compare with a boost-and-project reference; a per-adapter monitor compares equal names across registered "
        "topologies; three-body theta is compared with formulate_scattering_angle; distinct = (topology shape, "
        "labelling, stratum, cse, variable kind); non-trivial iff the topology has depth >= 2")
ASSUMPTIONS = ["reference: pure boosts (vector formula) + projection on axes built from cross products",
               "documented naming rule: a node's angles are those of the child that decays further, of the helicity state when none or both do",
               "tolerance = 1e-9 + 1e3 x measured sensitivity of the expression to 1e-13 relative input noise; azimuth not judged where sin(theta) < 1e-6"]
FLOORS = {"quick": {"evaluations": 1500, "distinct_nontrivial": 35,
                    "hooks": ["compute_helicity_angles", "compute_invariant_masses", "HelicityAdapter.create_expressions"]},
          "thorough": {"evaluations": 10000, "distinct_nontrivial": 200,
                       "hooks": ["compute_helicity_angles", "compute_invariant_masses", "HelicityAdapter.create_expressions"]}}
CASE_TIMEOUT = {"quick": 400, "thorough": 1500}
STRATA = ["flat", "threshold", "boosted", "planar", "collinear", "axis", "heavy"]


def plan(tier, seed):
    from qrules.topology import create_isobar_topologies
    cases = []
    rng = np.random.default_rng([seed, 7])
    for n in (2, 3, 4, 5):
        tops = create_isobar_topologies(n)
        for ti in range(len(tops)):
            labelings = ["identity", "relabel+1", "perm_final", "perm_intermediate", "perm_both"]
            if tier == "quick" and n == 5:
                labelings = ["identity", "perm_both"] if ti % 2 == 0 else ["perm_intermediate"]
            if tier == "quick" and n == 4:
                labelings = ["identity", "perm_final", "perm_both"]
            for lab in labelings:
                strata = STRATA if tier == "thorough" else [STRATA[k] for k in sorted(rng.choice(len(STRATA), 2, replace=False))] + (["flat"] if n < 5 else [])
                for st in dict.fromkeys(strata):
                    cse = bool((ti + len(cases)) % 2)
                    deep = n == 5 and ti == 0  # four-step cascade: code without cse grows exponentially (~250 s)
                    if deep and (tier == "quick" or st != "flat"):
                        cse = True
                    cases.append({"kind": "topology", "n": n, "ti": ti, "labeling": lab, "stratum": st,
                                  "cse": cse, "massless": bool(len(cases) % 3 == 0),
                                  # every other case: the event is given in a frame in which the decaying state moves
                                  "lab_frame": bool(len(cases) % 2),
                                  "cost": (60.0 if cse else 250.0) if deep else (15.0 if n == 5 else 0.5 * n ** 2)})
    for n in (3, 4):
        for ti in range(len(create_isobar_topologies(n))):
            cases.append({"kind": "adapter", "n": n, "ti": ti, "cost": 40.0 if n == 4 else 3.0})
    for ti in range(len(create_isobar_topologies(3))):
        for perm in itertools.permutations((1, 2, 3)):
            for st in ("flat", "threshold", "boosted"):
                cases.append({"kind": "dalitz", "perm": list(perm), "ti": ti, "stratum": st, "cost": 2.0})
    return cases


def setup_worker(rec, ctx):
    import ampform.kinematics as KM
    import ampform.kinematics.angles as A
    import ampform.kinematics.lorentz as L
    from vmon.core import attach

    def ensure_angles(old, result, four_momenta, topology):
        _judge_dict(rec, ctx, result, topology, "compute_helicity_angles", kinds=("phi", "theta"))

    def ensure_masses(old, result, four_momenta, topology):
        _judge_dict(rec, ctx, result, topology, "compute_invariant_masses", kinds=("m",))

    def ensure_adapter(old, result, self):
        tops = list(self.registered_topologies)
        if len(tops) == 1:
            _judge_dict(rec, ctx, result, tops[0], "HelicityAdapter.create_expressions", kinds=("phi", "theta", "m"))
    attach(A, "compute_helicity_angles", hook="compute_helicity_angles", rec=rec, ensure=ensure_angles)
    attach(L, "compute_invariant_masses", hook="compute_invariant_masses", rec=rec, ensure=ensure_masses)
    attach(KM.HelicityAdapter, "create_expressions", hook="HelicityAdapter.create_expressions", rec=rec, ensure=ensure_adapter)
    ctx["lam_cache"] = {}


def relabel(top, labeling, rng):
    """Relabel final-state and/or intermediate edge ids of an isobar topology."""
    finals = sorted(top.outgoing_edge_ids)
    inter = sorted(top.intermediate_edge_ids)
    mapping = {}
    if labeling == "relabel+1":
        mapping = {i: i + 1 for i in sorted(top.edges)}
    if labeling in ("perm_final", "perm_both"):
        perm = list(rng.permutation(finals))
        mapping.update(dict(zip(finals, (int(x) for x in perm))))
    if labeling in ("perm_intermediate", "perm_both") and len(inter) >= 2:
        perm = list(rng.permutation(inter))
        if perm == inter:
            perm = inter[1:] + inter[:1]
        mapping.update(dict(zip(inter, (int(x) for x in perm))))
    if not mapping:
        return top
    import attrs
    return attrs.evolve(top, edges={mapping.get(i, i): e for i, e in top.edges.items()})


def _lambdify(ctx, expr, cse):
    import sympy as sp
    from vmon.workloads.exprs import _array_symbols
    key = (expr, cse)
    c = ctx["lam_cache"]
    if key not in c:
        if len(c) > 4000:
            c.clear()
        e = expr.doit()
        args = _array_symbols(e)
        c[key] = (args, sp.lambdify(args, e, cse=cse))
    return c[key]


def _eval_many(ctx, exprs, events, cse, n):
    """Evaluate a tuple of expressions with ONE lambdified function (one cse pass, as a user would do)."""
    import sympy as sp
    from vmon.workloads.exprs import _array_symbols
    key = (tuple(exprs), cse)
    c = ctx["lam_cache"]
    if key not in c:
        if len(c) > 400:
            c.clear()
        un = [e.doit() for e in exprs]
        args = sorted({a for e in un for a in _array_symbols(e)}, key=str)
        c[key] = (args, sp.lambdify(args, un, cse=cse))
    args, f = c[key]
    with np.errstate(all="ignore"):
        out = f(*[events[int(str(a.name)[1:])] for a in args])
    return [np.asarray(o, dtype=complex) * np.ones(n) for o in out]


def _eval(ctx, expr, events, cse):
    args, f = _lambdify(ctx, expr, cse)
    with np.errstate(all="ignore"):
        return np.asarray(f(*[events[int(str(a.name)[1:])] for a in args]), dtype=complex)


def _perturbed(events, rng, rel=1e-13):
    return {i: p * (1 + rel * rng.normal(size=p.shape)) for i, p in events.items()}


def _judge_dict(rec, ctx, result, topology, hook, kinds):
    from vmon.refmodel.frames import angle_diff, reference_kinematics
    events = ctx.get("events")
    if events is None or set(events) != set(topology.outgoing_edge_ids):
        return
    cse = ctx.get("cse", True)
    rng = ctx["case_rng"]
    ref, info = reference_kinematics(topology, events)
    # sensitivity of the reference itself to the same input noise (both sides lose digits in boosted / threshold strata)
    ref_sens = {k: np.zeros(len(v)) for k, v in ref.items()}
    pert_events = [_perturbed(events, rng) for _ in range(2)]
    for pe in pert_events:
        r2, _ = reference_kinematics(topology, pe)
        for k in ref:
            d = np.abs(r2[k] - ref[k]) if k.startswith("m_") else angle_diff(r2[k], ref[k])
            ref_sens[k] = np.maximum(ref_sens[k], np.where(np.isfinite(d), d, np.inf))
    feats0 = ctx.get("feats", {})
    names_got = {s.name for s in result}
    names_ref = {n for n in ref if n.split("_")[0] in kinds}
    rec.check(names_got == names_ref, "variable_names", f"{hook}: names {sorted(names_got ^ names_ref)} differ from the documented naming scheme",
              {"got": sorted(names_got), "expected": sorted(names_ref)}, feats0)
    n = len(next(iter(events.values())))
    items = [(sym, expr) for sym, expr in result.items() if sym.name in ref]
    vals = [_eval(ctx, e, events, cse) * np.ones(n) for _, e in items]
    pert_vals = [[_eval(ctx, e, pe, cse) * np.ones(n) for _, e in items] for pe in pert_events]
    for k_item, (sym, expr) in enumerate(items):
        name = sym.name
        kind = name.split("_")[0]
        v = vals[k_item]
        sens = ref_sens[name].copy()
        for pv_ in pert_vals:
            v2 = pv_[k_item]
            d = np.abs(v2 - v) if name.startswith("m_") else angle_diff(v2.real, v.real)
            sens = np.maximum(sens, np.where(np.isfinite(d), d, np.inf))
        meta = info[name]
        feats = {**feats0, "variable": kind, "hook": hook}
        if kind == "m":
            tol = 1e-9 * np.abs(ref[name]) + 1e3 * sens + 1e-7 * np.sqrt(np.finfo(float).eps) * meta["energy"]
            # massless combinations: sqrt of rounding noise ~ 1e-8 E is the best any float implementation can do
            tol = np.maximum(tol, 3e-8 * meta["energy"] * (ref[name] < 1e-6 * meta["energy"]))
            ok = np.abs(v - ref[name]) <= tol
            what = "Minkowski norm of the summed four-momenta"
        else:
            feats["both_children_decay"] = bool(meta["both_children_decay"])
            on_axis = meta["sin_theta"] == 0
            feats["momentum_exactly_on_z_axis"] = bool(on_axis.any())
            # acos-based polar angles lose digits near the z axis (delta(theta) ~ eps/sin(theta)); the rotation by that
            # theta leaves a spurious transverse momentum that shifts all azimuths further down the chain by eps/sin^2
            with np.errstate(all="ignore"):
                tol = 1e-9 + 1e3 * sens + 256 * np.finfo(float).eps / np.maximum(meta["sin_chain_min"], 1e-300) ** 2
            d = angle_diff(v.real, ref[name])
            if kind == "phi":
                ok = (d <= tol) | (np.abs(meta["sin_theta"]) < 1e-6) | (tol > 1e-3)
            else:
                ok = (d <= tol) | (tol > 1e-3)
            feats["ancestor_momentum_exactly_on_z_axis"] = bool(meta["ancestor_pt_exactly_zero"].any())
            nonfinite = ~np.isfinite(v) & ~on_axis
            if nonfinite.any():
                i = int(np.argmax(nonfinite))
                rec.check(False, "non_finite", f"{hook}: {name} is {v[i]} for a regular event (reference {ref[name][i]:.6g})",
                          {"name": name, "ref": ref[name][i], "momenta": {k: events[k][i] for k in events}}, feats)
            else:
                rec.evaluation()
            ok = (ok & (np.abs(v.imag) <= 1e-12)) | nonfinite
            if on_axis.any():
                # judged separately so that the exactly-on-axis stratum can be classified on its own
                ok_axis = ok | ~on_axis
                i = int(np.argmin(ok_axis))
                rec.check(bool(ok_axis.all()), "angle_on_axis",
                          f"{hook}: {name} = {v[i]} for a momentum exactly along the z axis (reference {ref[name][i]:.6g})",
                          {"name": name, "got": v[i], "ref": ref[name][i], "momenta": {k: events[k][i] for k in events}}, feats)
                ok = ok | on_axis
            what = f"{'azimuth' if kind == 'phi' else 'polar angle'} of the momentum of edge {meta['source_edge']} in the helicity frame chain"
        i = int(np.argmin(ok))
        rec.check(bool(ok.all()), f"{kind}_value",
                  f"{hook}: {name} = {v[i]} but the {what} is {ref[name][i]!r} (event {i}, tol {np.atleast_1d(tol)[min(i, np.size(tol) - 1)]:.2g})",
                  {"name": name, "got": v[i], "ref": ref[name][i], "momenta": {k: events[k][i] for k in events}, "expr": str(expr)[:300]}, feats)


def _masses(n, rng, massless):
    m = list(np.round(rng.uniform(0.1, 0.9, n), 3))
    if massless:
        m[int(rng.integers(n))] = 0.0
    return m, float(sum(m) + rng.uniform(0.8, 3.0))


def run_case(case, rec, ctx):
    import sympy as sp
    from qrules.topology import create_isobar_topologies
    from ampform.kinematics import HelicityAdapter
    from ampform.kinematics.angles import compute_helicity_angles, formulate_scattering_angle
    from ampform.kinematics.lorentz import compute_invariant_masses, create_four_momentum_symbols
    from vmon.refmodel.frames import angle_diff
    from vmon.workloads.events import gen_events, mass2
    from vmon.workloads.reactions import attached

    rng = ctx["case_rng"] = np.random.default_rng([ctx["seed"], 7, case["idx"]])
    nev = 40 if ctx["tier"] == "quick" else 120
    if case["kind"] == "topology":
        top = relabel(create_isobar_topologies(case["n"])[case["ti"]], case["labeling"], rng)
        ids = sorted(top.outgoing_edge_ids)
        m, M = _masses(case["n"], rng, case["massless"])
        ctx["events"] = gen_events(M, m, nev, rng, ids=ids, stratum=case["stratum"])
        if case.get("lab_frame"):
            from vmon.workloads.events import boost_from_rest
            gam = 1 + 10 ** rng.uniform(-2, 1.3, nev)
            d_ = rng.normal(size=(nev, 3)); d_ /= np.linalg.norm(d_, axis=1)[:, None]
            ref_ = np.concatenate([(gam * M)[:, None], (np.sqrt(gam ** 2 - 1) * M)[:, None] * d_], 1)
            ctx["events"] = {i_: boost_from_rest(q_, ref_, np.full(nev, M)) for i_, q_ in ctx["events"].items()}
        ctx["cse"] = case["cse"]
        depth = max(len([1 for _ in _chain(top, e)]) for e in top.outgoing_edge_ids)
        ctx["feats"] = {"n": case["n"], "ti": case["ti"], "labeling": case["labeling"], "stratum": case["stratum"]}
        rec.case(("topology", case["n"], case["ti"], case["labeling"], case["stratum"], case["cse"], bool(case.get("lab_frame"))), depth >= 2,
                 n_final=case["n"], labeling=case["labeling"], stratum=case["stratum"], cse=case["cse"], lab_frame=bool(case.get("lab_frame")))
        rec.sample(f"topology:{case['n']}:{case['labeling']}", {"topology": str(top), "masses": m, "M": M, "stratum": case["stratum"], "cse": case["cse"]})
        p = create_four_momentum_symbols(top)
        compute_helicity_angles(p, top)      # judged by the attached post-conditions
        compute_invariant_masses(p, top)
        HelicityAdapter([top]).create_expressions()
        ctx["events"] = None
        return
    if case["kind"] == "adapter":
        top = create_isobar_topologies(case["n"])[case["ti"]]
        ids = sorted(top.outgoing_edge_ids)
        m, M = _masses(case["n"], rng, False)
        events = gen_events(M, m, nev, rng, ids=ids)
        ad = HelicityAdapter([top])
        ad.permutate_registered_topologies()
        tops = sorted(ad.registered_topologies, key=str)
        if ctx["tier"] == "quick" and len(tops) > 8:
            # quick tier: a seeded subset that always contains the base topology and topologies isomorphic to it
            pick = [tops[k] for k in sorted(rng.choice(len(tops), 7, replace=False))]
            tops = [top] + [t for t in pick if t != top]
            ad = HelicityAdapter(tops)
        feats = {"n": case["n"], "ti": case["ti"], "kind": "adapter", "registered": len(tops)}
        rec.case(("adapter", case["n"], case["ti"]), case["n"] >= 3, n_final=case["n"], registered_topologies=len(tops))
        rec.sample(f"adapter:{case['n']}", {"base_topology": str(top), "registered": len(tops)})
        ctx["events"] = None
        # name -> distinct expressions over all registered topologies (only names with >= 2 distinct expressions can
        # carry two values; those are evaluated numerically)
        variants: dict = {}
        for t in tops:
            pm = create_four_momentum_symbols(t)
            d = {**compute_helicity_angles(pm, t), **compute_invariant_masses(pm, t)}
            for sym, expr in d.items():
                lst = variants.setdefault(sym.name, [])
                if expr not in lst:
                    lst.append(expr)
        rec.stratum("adapter_names", "single_expression", sum(1 for v in variants.values() if len(v) == 1))
        rec.stratum("adapter_names", "several_expressions", sum(1 for v in variants.values() if len(v) > 1))
        collisions = []
        for name, lst in variants.items():
            rec.evaluation()
            if len(lst) < 2:
                continue
            vals = [_eval(ctx, e, events, True) * np.ones(nev) for e in lst]
            for e2, v in zip(lst[1:], vals[1:]):
                bad = (np.abs(v - vals[0]) > 1e-9 * (1 + np.abs(vals[0]))) if name.startswith("m_") else (angle_diff(v.real, vals[0].real) > 1e-7)
                if bad.any():
                    collisions.append((name, str(lst[0]), str(e2)))
        both = _has_node_with_two_decaying_children(top)
        rec.check(not collisions, "name_collision",
                  f"with {len(tops)} permutations of the {case['n']}-body topology {case['ti']} registered, {collisions[0][0] if collisions else ''} denotes "
                  f"{collisions[0][1] if collisions else ''} in one topology and {collisions[0][2] if collisions else ''} in another",
                  {"collisions": collisions[:6]}, {**feats, "both_children_decay": both})
        # registration history: attempts to register topologies of another decay (other final-state ids) must be refused and
        # must leave the adapter as it was - otherwise one dictionary mixes variables of different decays
        before = ad.registered_topologies
        foreign_tops = []
        for n_other in {2, 3, 4, 5} - {case["n"]}:
            if n_other > case["n"] + 1 and ctx["tier"] == "quick":
                continue
            foreign_tops.append(create_isobar_topologies(n_other)[0])
        import attrs as _attrs
        foreign_tops.append(_attrs.evolve(top, edges={(i + 100 if i in top.outgoing_edge_ids else i): e for i, e in top.edges.items()}))
        accepted = []
        for ft in foreign_tops:
            rec.hit("history:foreign_registration")
            try:
                ad.register_topology(ft)
                accepted.append(str(ft)[:80])
            except ValueError:
                pass
        after = ad.registered_topologies
        rec.check(not accepted and after == before, "registration_not_atomic",
                  f"adapter for final state {ids}: registering topologies of another decay was {'accepted' if accepted else 'refused'} "
                  f"but the registry changed from {len(before)} to {len(after)} topologies (final states now {sorted({tuple(sorted(t.outgoing_edge_ids)) for t in after})})",
                  {"accepted": accepted}, feats)
        if after != before:
            ad = HelicityAdapter(tops)   # continue the remaining checks on a clean adapter
        merged = ad.create_expressions()
        missing = [n_ for n_ in variants if n_ not in {s_.name for s_ in merged}]
        foreign = [s_.name for s_, e_ in merged.items() if e_ not in variants.get(s_.name, [])]
        rec.check(not missing and not foreign, "merged_dictionary",
                  f"create_expressions() of the multi-topology adapter: missing {missing[:4]}, foreign definitions {foreign[:4]}",
                  {"missing": missing[:10], "foreign": foreign[:10]}, {**feats, "both_children_decay": both})
        return
    # dalitz: theta of the isobar decay vs the library's own closed form in the Dalitz variables
    base = create_isobar_topologies(3)[case["ti"]]
    from ampform.helicity.align.dpd import relabel_edge_ids
    top = relabel_edge_ids(base)
    perm = case["perm"]
    import attrs
    mapping = dict(zip((1, 2, 3), perm))
    top = attrs.evolve(top, edges={mapping.get(i, i): e for i, e in top.edges.items()})
    m, M = _masses(3, rng, case["idx"] % 4 == 0)
    events = gen_events(M, m, nev, rng, ids=[1, 2, 3], stratum=case["stratum"])
    ctx["events"] = events
    ctx["cse"] = True
    ctx["feats"] = {"kind": "dalitz", "perm": perm, "stratum": case["stratum"]}
    pm = create_four_momentum_symbols(top)
    ang = compute_helicity_angles(pm, top)
    ctx["events"] = None
    res = next(iter(top.intermediate_edge_ids))
    i_, j_ = attached(top, res)
    k_ = ({1, 2, 3} - {i_, j_}).pop()
    mass = lambda q: np.sqrt(np.maximum(mass2(q), 0))  # noqa: E731
    vals = {"m_0": np.full(nev, M), "m_1": mass(events[1]), "m_2": mass(events[2]), "m_3": mass(events[3]),
            "m_23": mass(events[2] + events[3]), "m_13": mass(events[1] + events[3]), "m_12": mass(events[1] + events[2])}
    theta_sym = sp.Symbol(f"theta_{i_}^{i_}{j_}", real=True)
    rec.case(("dalitz", tuple(perm), case["ti"], case["stratum"]), True, kind="dalitz", stratum=case["stratum"])
    if theta_sym not in ang:
        rec.check(False, "variable_names", f"no {theta_sym} among {sorted(map(str, ang))}", None, ctx["feats"])
        return
    v4 = _eval(ctx, ang[theta_sym], events, True).real
    try:
        _, expr = formulate_scattering_angle(i_, j_)
    except NotImplementedError:
        _, expr = formulate_scattering_angle(j_, i_)
        v4 = np.pi - v4
    e = expr.doit()
    fs = sorted(e.free_symbols, key=str)
    f = sp.lambdify(fs, e)

    def closed(vv):
        with np.errstate(all="ignore"):
            return np.asarray(f(*[vv[s.name] for s in fs]), dtype=float)
    vd = closed(vals)
    sens = np.zeros(nev)
    for _ in range(2):
        pv = {k: v * (1 + 1e-13 * rng.normal(size=nev)) for k, v in vals.items()}
        d = np.abs(closed(pv) - vd)
        sens = np.maximum(sens, np.where(np.isfinite(d), d, np.inf))
    tol = 1e-8 + 1e4 * sens
    ok = (np.abs(v4 - vd) <= tol) | (tol > 1e-3)
    i = int(np.argmin(ok))
    rec.sample("dalitz", {"topology": str(top), "theta_symbol": str(theta_sym), "masses": m, "M": M})
    rec.check(bool(ok.all()), "dalitz_closed_form",
              f"{theta_sym} from four-momenta = {v4[i]!r} but formulate_scattering_angle({i_},{j_}) on the Dalitz variables = {vd[i]!r}",
              {"got": v4[i], "closed_form": vd[i], "masses": {k: v[i] for k, v in vals.items()}}, ctx["feats"])


def _chain(top, eid):
    from vmon.workloads.reactions import parent_edge
    cur = eid
    while True:
        par = parent_edge(top, cur)
        if par is None or par in top.incoming_edge_ids:
            return
        yield par
        cur = par


def _has_node_with_two_decaying_children(top) -> bool:
    for n in top.nodes:
        ch = top.get_edge_ids_outgoing_from_node(n)
        if sum(1 for c in ch if top.edges[c].ending_node_id is not None) == 2:
            return True
    return False


META = {
    "technique": "runtime post-conditions on compute_helicity_angles / compute_invariant_masses / HelicityAdapter.create_expressions: lambdified results on generated events vs an independent boost-and-project reference; cross-topology name-collision monitor; four-vector route vs the library's Dalitz closed form",
    "level_text": "All isobar topologies for 2..5 final states under five labelings (identity, shifted, permuted final ids, permuted intermediate ids, both), on events from seven strata (flat, near-threshold, highly boosted, planar, collinear, axis-aligned, heavy sub-systems), with massless particles and cse on/off, are judged variable by variable against the reference; adapters with all permuted 3- and 4-body topologies registered are monitored for names carrying two values; the three-body polar angle is compared with formulate_scattering_angle for all six id permutations. Every other topology case gives the event in a frame in which the decaying state moves; the adapter case attempts to register topologies of other decays and requires refusal with an unchanged registry.",
    "level_note": "Reference encodes the documented naming rule (see assumptions); tolerance derived from the measured sensitivity of each expression to 1e-13 input noise; azimuths at sin(theta) < 1e-6 not judged.",
}
