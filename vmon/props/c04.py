"""C04 — unpolarised intensity is invariant under a global rotation of the event."""
from __future__ import annotations

import numpy as np

ID = "C04"
LEVEL = "exploration"
RULE = ("case = (reaction with complete helicity sets, alignment, dynamics): the full user pipeline (lambdified "
        "kinematic_variables -> lambdified expression) is evaluated on generated events and on the same events under "
        "proper rotations (Haar-random x3, pi/2 and pi about each axis, 1e-6 rad; identity as harness self-test). "
        "Required: single topology (any alignment); several topologies with spinless final state or with a spin "
        "alignment. distinct = (topology set, spin content, alignment, dynamics); non-trivial iff the intensity varies "
        "by > 1% over the event sample")
ASSUMPTIONS = ["rotation applied to all final-state momenta in the initial-state rest frame", "relative tolerance 1e-8 on max(I) (+ NaN-free)"]
FLOORS = {"quick": {"evaluations": 250, "distinct_nontrivial": 20, "hooks": ["pipeline:kinematics", "pipeline:intensity"]},
          "thorough": {"evaluations": 2500, "distinct_nontrivial": 80, "hooks": ["pipeline:kinematics", "pipeline:intensity"]}}
CASE_TIMEOUT = {"quick": 400, "thorough": 1500}
WALL_BUDGET = {"quick": 900, "thorough": 10800}
QUICK_SKIP = ("psi2s", "lambdab", "jpsi_p_pbar_pi0__n1440_n1520", "jpsi_p_pbar_pi0__n1440_both", "jpsi_k0_sigmap_pbar__sigma1775", "omega_pi0")


def plan(tier, seed):
    from vmon.workloads.reactions import fixture_names
    rng = np.random.default_rng([seed, 4])
    cases = []
    for name in fixture_names("helicity") + (fixture_names("canonical-helicity") if tier == "thorough" else ["jpsi_pi0_pip_pim__rho.can", "lambdac_p_km_pip__kst.can", "jpsi_gamma_pi0_pi0__f0_f2.can"]):
        if tier == "quick" and name.startswith(QUICK_SKIP):
            continue
        for align in ("none", "axisangle", "dpd"):
            cases.append({"reaction": {"kind": "fixture", "name": name}, "align": align, "dynamics": "bw", "seed": int(rng.integers(1 << 30)),
                          "cost": {"none": 4.0, "axisangle": 25.0, "dpd": 10.0}[align]})
    for k in range(12 if tier == "quick" else 90):
        for align in ("axisangle", "dpd"):
            cases.append({"reaction": {"kind": "synth_multi", "seed": int(rng.integers(1 << 30)), "half_integer": k % 3 == 2}, "align": align, "dynamics": "bw",
                          "seed": int(rng.integers(1 << 30)), "cost": 30.0 if align == "axisangle" else 8.0})
    n_syn = 24 if tier == "quick" else 400
    for k in range(n_syn):
        cases.append({"reaction": {"kind": "synth", "seed": int(rng.integers(1 << 30)), "n_final": [3, 3, 4, 3][k % 4], "formalism": ["helicity", "canonical-helicity"][k % 2]},
                      "align": ["none", "axisangle", "dpd", "none"][k % 4], "dynamics": "bw", "seed": int(rng.integers(1 << 30)), "cost": 8.0})
    return cases


def setup_worker(rec, ctx):
    pass


def _spinful_spectator(reaction) -> bool:
    """Some topology's first node has a final-state child (the spectator of that chain) with spin > 0."""
    seen = set()
    for t in reaction.transitions:
        top = t.topology
        if top in seen:
            continue
        seen.add(top)
        init = next(iter(top.incoming_edge_ids))
        node0 = top.edges[init].ending_node_id
        for c in top.get_edge_ids_outgoing_from_node(node0):
            if top.edges[c].ending_node_id is None and t.states[c].particle.spin > 0:
                return True
    return False


def opposite_helicity_decaying_child(reaction) -> bool:
    """Structural predicate: some node's only decaying child is the opposite-helicity state."""
    from vmon.workloads.reactions import node_children, topologies_of
    for top in topologies_of(reaction):
        for n in top.nodes:
            h, o = node_children(top, n)
            dec = [c for c in (h, o) if top.edges[c].ending_node_id is not None]
            if len(dec) == 1 and dec[0] == o:
                return True
    return False


def rotations(rng):
    from vmon.workloads.events import axis_rotation, random_rotation
    rots = [("identity", np.eye(3))]
    rots += [(f"haar{k}", random_rotation(rng)) for k in range(3)]
    rots += [(f"axis{a}:pi/2", axis_rotation(a, np.pi / 2)) for a in range(3)]
    rots += [(f"axis{a}:pi", axis_rotation(a, np.pi)) for a in range(3)]
    rots += [("tiny", axis_rotation(int(rng.integers(3)), 1e-6) @ axis_rotation(int(rng.integers(3)), 1e-6))]
    return rots


def build_case(case, ctx):
    from vmon.props.c01 import make_reaction
    from vmon.workloads import configs as C
    from vmon.workloads import reactions as R
    desc = case["reaction"]
    if desc["kind"] == "synth_multi":
        reaction = R.synth_multi_topology(desc["seed"], half_integer=desc["half_integer"])
        name = f"synth_multi:{desc['seed']}"
    elif desc["kind"] == "synth":
        rng0 = np.random.default_rng([desc["seed"]])
        reaction = None
        for attempt in range(40):
            spec = R.synth_spec(rng0, n_final=desc["n_final"], formalism=desc["formalism"], max_spin2=3 if desc["n_final"] == 3 else 2,
                                allow_massless=attempt % 2 == 0, max_transitions=80, shuffle_names=desc["seed"] % 2 == 1)
            r = R.build_synth(spec)
            if r is not None and R.has_complete_helicities(r):
                reaction = r
                break
        name = f"synth:{desc['seed']}"
    else:
        reaction, name = make_reaction(desc)
    if reaction is None:
        return None
    cfg = C.default_config()
    n = len(reaction.final_state)
    align = case["align"]
    if align == "dpd":
        if n != 3:
            return None
        cfg["align"] = "dpd" + str(1 + case["seed"] % 3)
    elif align == "axisangle":
        if n < 3 or C.axis_angle_cost(reaction) > (3000 if ctx["tier"] == "quick" else 40000):
            return None
        cfg["align"] = "axisangle"
    if case["dynamics"] == "bw":
        cfg["dynamics"] = [{"select": "name", "target": nm, "builder": "bw"} for nm in C.resonances(reaction)]
    return reaction, name, cfg


def run_case(case, rec, ctx):
    from vmon.core import digest
    from vmon.numeval import ModelEvaluator
    from vmon.workloads import configs as C
    from vmon.workloads import reactions as R
    from vmon.workloads.events import gen_events, rotate_events
    built = build_case(case, ctx)
    if built is None:
        rec.note("case_not_applicable")
        return
    reaction, name, cfg = built
    if not R.has_complete_helicities(reaction):
        rec.note("incomplete_helicity_sets")
        return
    tops = R.topologies_of(reaction)
    spinless_final = all(p.spin == 0 for p in reaction.final_state.values())
    rng = np.random.default_rng([case["seed"]])
    r2 = b = model = None
    names_ = [p.name for p in reaction.final_state.values()]
    if len(tops) == 1 and len(set(names_)) < len(names_):
        # identical final-state particles: the builder adds the exchanged chains, which live on further topologies - the model
        # has as many topologies as its adapter has registered after formulate()
        r2, b = C.build(reaction, cfg)
        model = b.formulate()
        if len(b.adapter.registered_topologies) > 1:
            tops = sorted(b.adapter.registered_topologies, key=str)
    required = len(tops) == 1 or spinless_final or cfg["align"] != "none"
    if not required:
        rec.note("not_required:multi_topology_spinful_without_alignment")
        return
    if model is None:
        r2, b = C.build(reaction, cfg)
        model = b.formulate()
    pv = C.random_parameters(model, rng)
    label = f"{name} [{C.config_key(cfg)}]"
    feats = {"n_topologies": len(tops), "spinless_final_state": spinless_final, "align": cfg["align"].rstrip("123"),
             "multi_topology_with_opposite_helicity_decaying_child": len(tops) >= 2 and opposite_helicity_decaying_child(reaction),
             **R.massless_alignment_features(reaction, cfg["align"]),
             # an isobar can carry helicity != 0 iff the initial state has spin or the isobar recoils against a spinful spectator
             "dpd_multi_topology_with_isobar_helicity": cfg["align"].startswith("dpd") and len(tops) >= 2 and (
                 any(p.spin > 0 for p in reaction.initial_state.values()) or _spinful_spectator(reaction)),
             "multi_topology_axisangle_half_integer_spin": cfg["align"] == "axisangle" and len(tops) >= 2 and any(
                 float(p.spin) % 1 for p in list(reaction.final_state.values()) + list(reaction.initial_state.values())),
             "identical_spinful_particles": any(list(p.name for p in reaction.final_state.values()).count(q.name) > 1 and q.spin > 0 for q in reaction.final_state.values()),
             "formalism": reaction.formalism}
    evaluator = ModelEvaluator(model, pv, fast=True)
    rec.hit("pipeline:kinematics")
    fm = R.final_state_masses(r2)
    ids = sorted(fm)
    n_ev = 48 if ctx["tier"] == "quick" else 160
    strata = ["flat", "flat", "threshold", "boosted"]
    parts = [gen_events(R.initial_mass(r2), [fm[i] for i in ids], n_ev // len(strata), rng, ids=ids, stratum=st) for st in strata]
    ev = {i: np.concatenate([p[i] for p in parts]) for i in ids}
    rots = rotations(rng)
    big = {i: np.concatenate([rotate_events(ev, Rm)[i] for _, Rm in rots]) for i in ids}
    vals, _ = evaluator(big)
    rec.hit("pipeline:intensity")
    vals = np.asarray(vals).reshape(len(rots), -1)
    I0 = vals[0]
    finite = np.isfinite(vals).all()
    rec.check(bool(finite), "non_finite", f"{label}: intensity not finite on regular (rotated) events", {"values": vals[:, :2]}, feats)
    if not finite:
        return
    rec.check(bool((np.abs(I0.imag) <= 1e-9 * np.abs(I0).max()).all()), "intensity_not_real", f"{label}: intensity has an imaginary part", None, feats)
    scale = np.abs(I0).max()
    variation = (I0.real.max() - I0.real.min()) / scale if scale > 0 else 0.0
    key = (tuple(sorted(str(t) for t in tops))[:1], R.spin_content(reaction), len(tops), cfg["align"], case["dynamics"], reaction.formalism)
    rec.case(digest(key), variation > 0.01, n_topologies=len(tops), align=cfg["align"].rstrip("123"), spinless_final=spinless_final,
             formalism=reaction.formalism, n_final=len(ids), varies=variation > 0.01)
    rec.sample(f"{case['reaction']['kind']}:{cfg['align']}", {"reaction": R.reaction_summary(reaction), "config": C.config_key(cfg), "variation_over_events": variation,
                                                             "I(event 0)": I0[0], "rotations": [n_ for n_, _ in rots]})
    for k, (rname, _) in enumerate(rots):
        dev = np.abs(vals[k] - I0).max() / scale
        if rname == "identity":
            rec.check(dev == 0, "harness_selftest", f"{label}: identity rotation changed the intensity by {dev}", None, {"selftest": True})
            continue
        j = int(np.argmax(np.abs(vals[k] - I0)))
        rec.check(bool(dev <= 1e-8), "rotation_variance",
                  f"{label}: intensity changes under the rotation {rname}: I(event)={I0[j].real:.9g}, I(R event)={vals[k][j].real:.9g} (max relative change {dev:.3g}; "
                  f"{len(tops)} topologies, final state {'spinless' if spinless_final else 'with spin'}, alignment {cfg['align']})",
                  {"rotation": rname, "I": I0[j], "I_rotated": vals[k][j], "event": {i: ev[i][j] for i in ids}}, {**feats, "rotation": rname.split(":")[0].rstrip("012")})


META = {
    "technique": "metamorphic runtime observation of the full user pipeline (lambdified kinematic variables from four-momenta -> lambdified intensity) on events and their images under proper rotations",
    "level_text": "Every fixture with complete helicity sets (and synthetic 3- and 4-body reactions) is built with Breit-Wigner dynamics and random complex couplings under no alignment, axis-angle and DPD; 48 (thorough 160) events from flat/threshold/boosted strata are evaluated under 10 rotations (Haar-random, pi/2 and pi about each axis, 1e-6 rad) plus the identity as self-test, all through ampform's own NumPy printers for the kinematics. Required cases: single topology; several topologies with a spinless final state or with an alignment. Held = max relative change <= 1e-8 on everything evaluated. Synthetic multi-topology reactions put the spin on any of the three final-state particles; topologies added by symmetrisation count when deciding whether invariance is required.",
    "level_note": "Rotation matrices and the event generator are ours (vector algebra); multi-topology models with spinful final state and no alignment are outside the statement and skipped.",
}
