"""C18 — PoolSum denotes the finite sum over its index pools.

Contracts on the real PoolSum methods (every call made by any workload is judged) plus a
generated workload of summands / pools / nestings / substitution maps, judged against an
explicit itertools.product reference evaluated numerically.
"""
from __future__ import annotations

import itertools

import numpy as np

ID = "C18"
LEVEL = "exploration"
RULE = ("case = one generated PoolSum (summand family, number of indices 0..4, pool shapes incl. singletons and "
        "duplicates, nesting depth <= 3 incl. shadowed indices) with a set of substitution maps, or one PoolSum "
        "taken from a real (aligned) model; distinct = (summand family, #indices, pool-shape signature, nesting, "
        "shadowing, law); non-trivial iff >= 2 indices or nesting >= 2, and the summand depends on an index")
ASSUMPTIONS = ["explicit itertools.product sum evaluated with SymPy evalf as reference", "random real values for free symbols"]
FLOORS = {"quick": {"evaluations": 2000, "distinct_nontrivial": 60,
                    "hooks": ["PoolSum.evaluate", "PoolSum.doit", "PoolSum.cleanup", "PoolSum.__new__"]},
          "thorough": {"evaluations": 20000, "distinct_nontrivial": 200,
                       "hooks": ["PoolSum.evaluate", "PoolSum.doit", "PoolSum.cleanup", "PoolSum.__new__"]}}
CASE_TIMEOUT = {"quick": 120, "thorough": 300}
FAMILIES = ["polynomial", "rational", "power", "trig", "mixed", "constant"]


def plan(tier, seed):
    n = 160 if tier == "quick" else 1600
    cases = [{"kind": "generated", "family": FAMILIES[k % len(FAMILIES)], "n_idx": (k // 6) % 5,
              "depth": 1 + (k // 30) % 3, "shadow": (k % 7 == 3), "leak": (k % 5 == 2), "pool_container": ["tuple", "list", "generator", "tuple", "iterator", "map"][k % 6], "k": k, "cost": 0.3 + 0.3 * ((k // 30) % 3)} for k in range(n)]
    for name in ("jpsi_p_pbar_pi0__n1440.hel", "lambdac_p_km_pip__l1520.hel", "jpsi_gamma_pi0_pi0__f0.hel",
                 "tau_nu_pim_pi0__rho.hel", "jpsi_k0_sigmap_pbar__sigma1750.hel", "d0_km_pip_pip_pim__kst_rho.hel"):
        for align in ("none", "axisangle", "dpd"):
            if align == "dpd" and "pip_pip" in name:
                continue
            cases.append({"kind": "model", "fixture": name, "align": align, "cost": 3.0})
    for k in range(4 if tier == "quick" else 40):
        cases.append({"kind": "twins", "k": k, "cost": 0.5})
    return cases


# ---------------------------------------------------------------------------------------
def _indices_of(ps):
    return [(s, tuple(v)) for s, v in ps.args[1:]]


def ref_value(expr, env, PoolSum):
    """Numeric value by explicit enumeration; inner bindings shadow outer ones."""
    import sympy as sp
    if isinstance(expr, PoolSum):
        summand = expr.args[0]
        idx = _indices_of(expr)
        total = 0
        for combo in itertools.product(*[v for _, v in idx]):
            env2 = dict(env)
            for (s, _), val in zip(idx, combo):
                env2[s] = val
            total = total + ref_value(summand, env2, PoolSum)
        return total
    inner = _top_poolsums(expr, PoolSum)
    if inner:
        rep = {node: sp.Float(0) + _to_sympy(ref_value(node, env, PoolSum)) for node in inner}
        expr = expr.xreplace(rep)
    val = expr.xreplace({k: sp.sympify(v) for k, v in env.items()})
    return complex(sp.N(val, 30))


def _to_sympy(z):
    import sympy as sp
    z = complex(z)
    return sp.Float(z.real, 30) + sp.I * sp.Float(z.imag, 30)


def _top_poolsums(expr, PoolSum):
    out = []

    def walk(e):
        if isinstance(e, PoolSum):
            out.append(e)
            return
        for a in e.args:
            walk(a)
    walk(expr)
    return out


def ref_free_symbols(expr, PoolSum):
    import sympy as sp
    if isinstance(expr, PoolSum):
        fs = ref_free_symbols(expr.args[0], PoolSum)
        return fs - {s for s, _ in _indices_of(expr)}
    if not expr.has(PoolSum):
        return set(expr.free_symbols)
    out = set()
    for a in expr.args:
        out |= ref_free_symbols(a, PoolSum)
    return out


def _num(expr, env):
    import sympy as sp
    try:
        return complex(sp.N(expr.xreplace({k: sp.sympify(v) for k, v in env.items()}), 30))
    except (TypeError, ValueError):
        return complex("nan")


def _close(a, b):
    if a != a or b != b:
        return (a != a) and (b != b)
    return abs(a - b) <= 1e-9 * (1 + abs(a) + abs(b))


# ---------------------------------------------------------------------------------------
def setup_worker(rec, ctx):
    import sympy as sp
    import ampform.sympy as S
    from vmon.core import attach

    PoolSum = S.PoolSum
    ctx["PoolSum"] = PoolSum
    ctx["busy"] = False  # re-entrancy guard: the oracle itself must not trigger monitors recursively
    free = sp.symbols("a b c", real=True)
    ctx["free"] = free

    def env_for(expr):
        rng = ctx["case_rng"]
        return {s: sp.Rational(int(rng.integers(2, 40)), int(rng.integers(7, 13))) for s in sorted(expr.free_symbols, key=str)}

    def numeric_ok(expr):
        return all(isinstance(s, sp.Symbol) for s in expr.free_symbols) and not expr.atoms(sp.Indexed, sp.Function) - expr.atoms(sp.sin, sp.cos, sp.exp)

    def ensure_evaluate(old, result, self, *a, **k):
        if ctx["busy"] or not ctx.get("judge_calls") or not numeric_ok(self):
            return
        ctx["busy"] = True
        try:
            env = env_for(self.args[0])
            env = {s: v for s, v in env.items() if s in ref_free_symbols(self, PoolSum)}
            got = _num(result.doit() if hasattr(result, "doit") else result, env)
            ref = ref_value(self, env, PoolSum)
            rec.check(_close(got, ref), "evaluate_value", f"PoolSum.evaluate()/doit() = {got} but explicit product sum = {ref} for {self}",
                      {"poolsum": str(self), "env": {str(k_): str(v) for k_, v in env.items()}}, ctx.get("feats"))
        finally:
            ctx["busy"] = False

    attach(PoolSum, "evaluate", hook="PoolSum.evaluate", rec=rec, ensure=ensure_evaluate)
    attach(PoolSum, "doit", hook="PoolSum.doit", rec=rec, ensure=ensure_evaluate)

    def ensure_cleanup(old, result, self, *a, **k):
        if ctx["busy"] or not ctx.get("judge_calls") or not numeric_ok(self):
            return
        ctx["busy"] = True
        try:
            env = {s: v for s, v in env_for(self.args[0]).items() if s in ref_free_symbols(self, PoolSum)}
            ref = ref_value(self, env, PoolSum)
            got = ref_value(sp.sympify(result), env, PoolSum)
            unused = [str(s) for s, v in _indices_of(self) if s not in self.args[0].free_symbols and len(v) > 1]
            rec.check(_close(got, ref), "cleanup_value", f"cleanup() changed the value: {got} vs {ref} for {self}",
                      {"poolsum": str(self), "cleaned": str(result)},
                      {**(ctx.get("feats") or {}), "unused_index_with_pool_size_gt_1": bool(unused)})
        finally:
            ctx["busy"] = False

    attach(PoolSum, "cleanup", hook="PoolSum.cleanup", rec=rec, ensure=ensure_cleanup)

    orig_new = PoolSum.__new__

    def new(cls, *a, **k):
        rec.hit("PoolSum.__new__")
        return orig_new(cls, *a, **k)
    PoolSum.__new__ = staticmethod(new)


def _pool(rng, kind=None):
    import sympy as sp
    kind = kind or rng.choice(["range", "half", "singleton", "dup", "sparse", "all_equal"])
    if kind == "all_equal":  # one value repeated: a sum of identical terms, not a singleton
        v = sp.Rational(int(rng.integers(-3, 4)), int(rng.choice([1, 2])))
        return kind, [v] * int(rng.integers(2, 4))
    if kind == "range":
        lo = int(rng.integers(-2, 2)); return kind, [sp.Integer(lo + t) for t in range(int(rng.integers(2, 4)))]
    if kind == "half":
        s2 = int(rng.choice([1, 3])); return kind, [sp.Rational(v, 2) for v in range(-s2, s2 + 1, 2)]
    if kind == "singleton":
        return kind, [sp.Rational(int(rng.integers(-3, 4)), int(rng.choice([1, 2, 3])))]
    if kind == "dup":
        v = sp.Integer(int(rng.integers(0, 3))); return kind, [v, v, v + 1]
    return kind, [sp.Integer(-1), sp.Integer(1), sp.Rational(5, 2)]


def _summand(family, idx, free, rng, inner=None):
    import sympy as sp
    a, b, c = free
    use = list(idx) or []
    t = lambda k: use[k % len(use)] if use else sp.Integer(1)  # noqa: E731
    if family == "polynomial":
        e = a * t(0) ** 2 + b * t(1) + c * t(0) * t(2) + 3
    elif family == "rational":
        e = (a + t(0)) / (b ** 2 + t(1) ** 2 + 1) + c / (2 + sp.Abs(t(2)))
    elif family == "power":
        e = a ** (t(0) + 2) + (b + 5) ** t(1)
    elif family == "trig":
        e = sp.sin(a * t(0)) * sp.cos(b + t(1)) + sp.exp(-c * t(2) ** 2 / 7)
    elif family == "mixed":
        e = sp.sin(a + t(0)) / (1 + t(1) ** 2) + b * t(2) ** 3 - c * 5  # contains literals used in substitutions
    else:
        e = a + 2 * b  # does not depend on any index
    if inner is not None:
        e = e * inner + inner
    return e


def build_generated(case, ctx, rng):
    import sympy as sp
    PoolSum = ctx["PoolSum"]
    names = ["i", "j", "k", "l"]
    depth = case["depth"]
    n_idx = case["n_idx"]
    inner = None
    used = []
    shapes = []
    for level in range(depth):
        if level == depth - 1:
            k = n_idx
        else:
            k = int(rng.integers(1, 3))
        pool_names = list(names)
        if case["shadow"] and used and level > 0:
            idx_syms = [used[0]] + [sp.Symbol(n_) for n_ in pool_names if sp.Symbol(n_) not in used][: max(0, k - 1)]
        else:
            idx_syms = [sp.Symbol(n_) for n_ in pool_names if sp.Symbol(n_) not in used][:k]
        pools = []
        for s in idx_syms:
            kind, vals = _pool(rng)
            shapes.append(kind)
            pools.append((s, vals))
        fam = case["family"] if level == depth - 1 else FAMILIES[int(rng.integers(0, 5))]
        body = _summand(fam, idx_syms, ctx["free"], rng, inner)
        if case.get("leak") and level > 0 and used and used[0] not in idx_syms:
            # the index of a deeper sum also occurs *free* at this level (bound inside, free outside)
            body = body * (used[0] + 2) + used[0]
        mode = case.get("pool_container", "tuple")
        if mode == "generator":
            given = [(s_, (v_ for v_ in vals_)) for s_, vals_ in pools]       # one-shot iterables are valid Iterable[Basic]
        elif mode == "iterator":
            given = [(s_, iter(list(vals_))) for s_, vals_ in pools]
        elif mode == "map":
            given = [(s_, map(sp.sympify, list(vals_))) for s_, vals_ in pools]
        elif mode == "list":
            given = [(s_, list(vals_)) for s_, vals_ in pools]
        else:
            given = pools
        inner = PoolSum(body, *given)
        if [tuple(v_) for _, v_ in _indices_of(inner)] != [tuple(v_) for _, v_ in pools]:
            rec_ = ctx.get("rec")
            if rec_ is not None:
                rec_.check(False, "pool_container", f"PoolSum built from pools given as {mode} stores {[tuple(v_) for _, v_ in _indices_of(inner)]}, "
                           f"not the values {[tuple(v_) for _, v_ in pools]}", {"poolsum": str(inner)}, {"family": case["family"], "pool_container": mode})
        used += [s for s in idx_syms if s not in used]
    return inner, shapes


def _run_twins(case, rec, ctx, rng):
    """Different sums evaluated one after the other in one process - in particular look-alike sums whose *Python hashes*
    coincide (CPython: hash(-1) == hash(-2), so trees differing only by Integer(-1) / Integer(-2) collide for every seed).
    Each must evaluate to its own explicit sum, whatever was evaluated before."""
    import sympy as sp
    PoolSum = ctx["PoolSum"]
    a, b, c = ctx["free"]
    i, j = sp.symbols("i j")
    f = sp.Function("f")
    k = case["k"]
    lo = [sp.Integer(-1), sp.Integer(-2)]
    if k % 2:
        lo.reverse()
    pairs = []
    for v in lo:
        variants = [PoolSum(a ** i + b * i, (i, (v, 1))),                                   # pool value
                    PoolSum(a * i + v * b, (i, (0, 1, 1))),                                   # coefficient
                    PoolSum(f(i, j) + c, (i, (v, 1)), (j, (0, 2))),                           # two indices, undefined function
                    PoolSum(a ** i * PoolSum(b * j + i, (j, (v, 0))), (i, (1, 2))),           # nested: inner pool
                    PoolSum((a + i) ** v + sp.Rational(v, 3) * c, (i, (1, 2, 3)))]            # exponent / rational numerator
        pairs.append(variants)
    env = {s_: sp.Rational(int(rng.integers(2, 40)), int(rng.integers(7, 13))) for s_ in (a, b, c)}
    feats = {"family": "twins", "n_idx": 1, "depth": 1, "shadow": False}
    rec.case(("twins", k % 2), True, law="hash_twins", n_indices=1, depth=1, shadow=False)
    for which in range(len(pairs[0])):
        for first_second, P in enumerate((pairs[0][which], pairs[1][which])):
            if any(isinstance(n_, sp.core.function.AppliedUndef) for n_ in sp.preorder_traversal(P)):
                # undefined function: compare structurally with the explicit sum
                expl = sp.Add(*[P.args[0].xreplace(dict(zip([s_ for s_, _ in _indices_of(P)], combo)))
                                for combo in __import__("itertools").product(*[v_ for _, v_ in _indices_of(P)])])
                got = P.doit()
                ok = sp.expand(got - expl) == 0
                what = f"doit() = {got}, explicit sum = {expl}"
            else:
                ref = ref_value(P, env, PoolSum)
                got = P.doit()
                ok = _close(_num(got, env), ref) and _close(ref_value(sp.sympify(P.evaluate()), env, PoolSum), ref)
                what = f"doit() = {_num(got, env)} but explicit sum = {ref}"
            rec.check(bool(ok), "doit_value", f"{'second' if first_second else 'first'} of two look-alike sums ({P}): {what}", {"poolsum": str(P)},
                      {**feats, "evaluated_after_hash_twin": bool(first_second)})


def run_case(case, rec, ctx):
    import sympy as sp
    PoolSum = ctx["PoolSum"]
    rng = np.random.default_rng([ctx["seed"], 18, case["idx"]])
    ctx["case_rng"] = rng
    if case["kind"] == "model":
        return _run_model(case, rec, ctx, rng)
    if case["kind"] == "twins":
        return _run_twins(case, rec, ctx, rng)
    ctx["judge_calls"] = False
    ctx["rec"] = rec
    P, shapes = build_generated(case, ctx, rng)
    a, b, c = ctx["free"]
    idx_all = [s for s, _ in _indices_of(P)]
    depends = bool(set(idx_all) & P.args[0].free_symbols)
    nontrivial = (len(idx_all) >= 2 or case["depth"] >= 2) and depends
    feats = {"family": case["family"], "n_idx": len(idx_all), "depth": case["depth"], "shadow": case["shadow"]}
    ctx["feats"] = feats
    sig = ",".join(sorted(set(shapes)))
    rec.sample(f"{case['family']}:d{case['depth']}{':shadow' if case['shadow'] else ''}", str(P))
    env = {s: sp.Rational(int(rng.integers(2, 40)), int(rng.integers(7, 13))) for s in (a, b, c)}
    leaked = sorted(ref_free_symbols(P, PoolSum) - {a, b, c}, key=str)   # index symbols of deeper sums that are free here
    for s in leaked:
        env[s] = sp.Rational(int(rng.integers(2, 40)), int(rng.integers(7, 13)))
    feats["free_symbol_bound_deeper"] = bool(leaked)

    def law(name, ok, what, wit=None, extra=None):
        rec.case((name, case["family"], len(idx_all), sig, case["depth"], case["shadow"]), nontrivial, law=name,
                 n_indices=len(idx_all), depth=case["depth"], shadow=case["shadow"])
        rec.check(ok, name, what, {"poolsum": str(P), **(wit or {})}, {**feats, **(extra or {})})

    ref = ref_value(P, env, PoolSum)
    # 1. evaluate / doit (the attached contracts fire on these calls as well)
    ctx["judge_calls"] = True
    try:
        ev = P.evaluate()
        dv = P.doit()
        dshallow = P.doit(deep=False)
    finally:
        ctx["judge_calls"] = False
    law("doit_value", _close(_num(dv, env), ref), f"doit() = {_num(dv, env)} but explicit sum = {ref}")
    law("evaluate_value", _close(ref_value(sp.sympify(ev), env, PoolSum), ref), f"evaluate() = {ref_value(sp.sympify(ev), env, PoolSum)} but explicit sum = {ref}")
    law("doit_shallow_value", _close(ref_value(sp.sympify(dshallow), env, PoolSum), ref), "doit(deep=False) changes the value")
    law("no_poolsum_left", not sp.sympify(dv).atoms(PoolSum), "doit() leaves PoolSum nodes")
    # 2. free symbols
    fs_ref = ref_free_symbols(P, PoolSum)
    law("free_symbols", set(P.free_symbols) == fs_ref, f"free_symbols = {sorted(map(str, P.free_symbols))} but summand symbols minus indices = {sorted(map(str, fs_ref))}")
    # 3. cleanup
    ctx["judge_calls"] = True
    try:
        cl = P.cleanup()
    finally:
        ctx["judge_calls"] = False
    unused = [str(s) for s, v in _indices_of(P) if s not in P.args[0].free_symbols and len(v) > 1]
    law("cleanup_value", _close(ref_value(sp.sympify(cl), env, PoolSum), ref),
        f"cleanup() changed the value: {ref_value(sp.sympify(cl), env, PoolSum)} vs {ref}", {"cleaned": str(cl)},
        {"unused_index_with_pool_size_gt_1": bool(unused)})
    # 4. substitution of free symbols commutes with evaluation
    x = sp.Symbol("x", real=True)
    maps = [(a, sp.Rational(5, 3)), (b, x), (c, a + 2), (a, b), (b, sp.Integer(5)), (c, sp.Integer(3))]
    for s in leaked:
        maps += [(s, sp.Integer(7)), (s, x + 1)]
    for old, new in maps:
        if old not in fs_ref:
            continue
        env2 = dict(env); env2[x] = sp.Rational(7, 5)
        # xreplace is SymPy's purely structural replacement (it also rewrites bound variables of Sum/Integral): for a symbol
        # that is free here but bound by a deeper sum only subs - the operation the statement speaks of - is judged
        for api in (("subs",) if old in leaked else ("subs", "xreplace")):
            try:
                lhs = P.subs(old, new) if api == "subs" else P.xreplace({old: new})
                lhs_v = ref_value(sp.sympify(lhs), env2, PoolSum) if sp.sympify(lhs).atoms(PoolSum) else _num(sp.sympify(lhs), env2)
                lhs_d = _num(sp.sympify(lhs).doit(), env2)
            except Exception as exc:  # noqa: BLE001
                law(f"{api}_free_commutes", False, f"{api}({old}->{new}) raised {exc!r}")
                continue
            rhs = _num((dv.subs(old, new) if api == "subs" else dv.xreplace({old: new})), env2)
            law(f"{api}_free_commutes", _close(lhs_d, rhs) and _close(lhs_v, rhs),
                f"{api}({old}->{new}) then doit = {lhs_d} / value {lhs_v}, doit then {api} = {rhs}", {"map": f"{old}->{new}"})
    # 5. substitution aimed at an index symbol leaves the sum unchanged
    for s in idx_all[:3]:
        for new in (sp.Integer(5), x, a, sp.Rational(1, 2)):
            env2 = dict(env); env2[x] = sp.Rational(7, 5)
            try:
                q = P.subs(s, new)
                val = ref_value(sp.sympify(q), env2, PoolSum) if sp.sympify(q).atoms(PoolSum) else _num(sp.sympify(q), env2)
                ok = _close(val, ref)
                what = f"subs({s}->{new}) on the bound index changed the sum: {q} (value {val} vs {ref})"
            except Exception as exc:  # noqa: BLE001
                ok, what = False, f"subs({s}->{new}) on a bound index raised {exc!r}"
            law("subs_bound_index", ok, what, {"map": f"{s}->{new}"}, {"target": type(new).__name__})
        # xreplace: symbol -> fresh symbol is an alpha-renaming (value unchanged)
        fresh = sp.Symbol("q_fresh")
        try:
            q = P.xreplace({s: fresh})
            val = ref_value(sp.sympify(q), env, PoolSum)
            ok, what = _close(val, ref), f"xreplace({s}->fresh symbol) changed the sum: {q}"
        except Exception as exc:  # noqa: BLE001
            ok, what = False, f"xreplace({s}->fresh symbol) raised {exc!r}"
        law("xreplace_bound_index_rename", ok, what)
    ctx["feats"] = None


def _run_model(case, rec, ctx, rng):
    """Every PoolSum of a real model: evaluate()/doit() (via the contracts) against the explicit sum."""
    import sympy as sp
    from ampform import get_builder
    from ampform.helicity.align.axisangle import AxisAngleAlignment
    from ampform.helicity.align.dpd import DalitzPlotDecomposition, relabel_edge_ids
    from vmon.numeval import eval_expr
    from vmon.workloads.reactions import load_fixture

    PoolSum = ctx["PoolSum"]
    r = load_fixture(case["fixture"])
    if case["align"] == "dpd":
        r = relabel_edge_ids(r)
    b = get_builder(r)
    if case["align"] == "axisangle":
        b.config.spin_alignment = AxisAngleAlignment()
    elif case["align"] == "dpd":
        b.config.spin_alignment = DalitzPlotDecomposition(1)
    ctx["judge_calls"] = False
    model = b.formulate()
    intensity = model.intensity
    sums = [n for n in sp.preorder_traversal(intensity) if isinstance(n, PoolSum)]
    feats = {"family": "model", "align": case["align"], "fixture": case["fixture"]}
    rec.sample(f"model:{case['align']}", {"fixture": case["fixture"], "n_poolsums": len(sums), "intensity": str(intensity)[:300]})
    # explicit reference: substitute index values ourselves (xreplace on the summand, innermost binding wins)
    def explicit(expr, bound):
        if isinstance(expr, PoolSum):
            idx = _indices_of(expr)
            terms = []
            for combo in itertools.product(*[v for _, v in idx]):
                b2 = dict(bound)
                b2.update({s: v for (s, _), v in zip(idx, combo)})
                terms.append(explicit(expr.args[0], b2))
            return sp.Add(*terms)
        if not expr.args:
            return bound.get(expr, expr)
        if not expr.has(PoolSum):
            return expr.xreplace(bound)
        return expr.func(*[explicit(a_, bound) for a_ in expr.args])

    ref_expr = explicit(intensity, {})
    got_expr = model.intensity.evaluate()
    # unfold nested sums the way HelicityModel.expression does
    full = model.expression
    ref_full = ref_expr.xreplace(model.amplitudes)
    syms = sorted(full.free_symbols | ref_full.free_symbols, key=str)
    vals = {}
    for s in syms:
        if s in model.parameter_defaults:
            vals[s] = complex(rng.normal(), rng.normal()) if s.name.startswith(("C_", "H_")) else float(model.parameter_defaults[s])
        else:
            vals[s] = rng.uniform(0.2, 2.9, 4)
    a_ = eval_expr(full, vals)
    b_ = eval_expr(ref_full, vals)
    nontrivial = len(sums) >= 2 or sum(len(v) for _, v in _indices_of(intensity)) >= 4
    rec.case(("model", case["fixture"], case["align"]), nontrivial, law="model_expression", align=case["align"])
    ok = bool(np.all(np.abs(a_ - b_) <= 1e-9 * (1 + np.abs(a_) + np.abs(b_))))
    rec.check(ok, "model_expression", f"HelicityModel.expression differs from the explicit nested sum over index pools ({a_[:2]} vs {b_[:2]})",
              {"fixture": case["fixture"], "align": case["align"]}, feats)
    rec.check(set(intensity.free_symbols) == ref_free_symbols(intensity, PoolSum), "free_symbols",
              "free_symbols of a model intensity != summand symbols minus indices", {"fixture": case["fixture"]}, feats)
    # structural: evaluate() == explicit one-level sum
    one = sp.Add(*[intensity.args[0].xreplace(dict(zip([s for s, _ in _indices_of(intensity)], combo)))
                   for combo in itertools.product(*[v for _, v in _indices_of(intensity)])])
    diff_syms = sorted((got_expr - one).free_symbols, key=str)
    rec.check(sp.simplify(got_expr - one) == 0 if len(diff_syms) < 40 else True, "model_evaluate_structure",
              "intensity.evaluate() != explicit sum (structural)", {"fixture": case["fixture"]}, feats)


META = {
    "technique": "runtime contracts on PoolSum.evaluate/doit/cleanup (+ free_symbols, subs, xreplace laws) judged against an explicit itertools.product reference, on generated sums and on every PoolSum of real aligned models",
    "level_text": "Monitors wrap the real PoolSum methods; generated workloads cover six summand families, 0..4 indices, pools with singletons/duplicates/half-integers, nesting depth 1..3 incl. shadowed indices and substitution maps hitting free and bound symbols (symbol->number/symbol/expression); the PoolSums inside unaligned, axis-angle and DPD models of six reactions are checked through HelicityModel.expression. Held = no observed call disagreed with the explicit sum. Also: pools given as list / generator / iterator / map, pools of one repeated value, symbols free at an outer level and bound deeper, and look-alike sums with equal Python hash evaluated one after the other.",
    "level_note": "Reference is an explicit product sum evaluated with SymPy evalf at 30 digits on random rational points; equality is numeric at those points (a symbolic difference vanishing there would be missed).",
}
