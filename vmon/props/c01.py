"""C01 — every symbol of a model is defined: parameter xor kinematic variable."""
from __future__ import annotations

import numpy as np

ID = "C01"
LEVEL = "exploration"
RULE = ("case = (reaction, builder configuration): reactions are the 70 qrules fixtures (both formalisms) and synthetic "
        "ReactionInfo objects (2..5 final states, spins up to 2 (3 for <= 3 bodies), massless particles, parity-constrained "
        "nodes, partial helicity sets, identical scalars); configurations are drawn from stable ids x scalar mass x couplings "
        "x alignment x naming flags x permuted topologies x dynamics assignment. The post-condition on "
        "HelicityAmplitudeBuilder.formulate judges every model returned. distinct = (reaction digest, configuration key); "
        "non-trivial iff the model has >= 2 amplitudes and the configuration moves or adds a kinematic variable / parameter "
        "(anything but the default configuration)")
ASSUMPTIONS = ["qrules fixtures and hand-built ReactionInfo objects are valid inputs", "numeric subsample: route A-fast at 6 events"]
FLOORS = {"quick": {"evaluations": 1000, "distinct_nontrivial": 120, "hooks": ["HelicityAmplitudeBuilder.formulate"]},
          "thorough": {"evaluations": 15000, "distinct_nontrivial": 1200, "hooks": ["HelicityAmplitudeBuilder.formulate"]}}
CASE_TIMEOUT = {"quick": 300, "thorough": 900}
WALL_BUDGET = {"quick": 900, "thorough": 10800}


def plan(tier, seed):
    from vmon.workloads.reactions import fixture_names
    rng = np.random.default_rng([seed, 1])
    cases = []
    names = fixture_names()
    n_cfg = 3 if tier == "quick" else 25
    for name in names:
        big = name.startswith(("psi2s", "lambdab")) and name.endswith(".can")
        for k in range(1 if big else n_cfg):
            cases.append({"reaction": {"kind": "fixture", "name": name}, "cfg_seed": int(rng.integers(1 << 30)), "cfg_index": k,
                          "numeric": (k == 0 and not big) if tier == "quick" else (k % 5 == 0 and not big), "cost": 8.0 if big else 3.0})
    n_syn = 120 if tier == "quick" else 2500
    for k in range(n_syn):
        cases.append({"reaction": {"kind": "synth", "seed": int(rng.integers(1 << 30)), "formalism": ["helicity", "canonical-helicity"][k % 2],
                                   "partial": [None, None, None, "initial_one", "initial_nonneg", "final_one"][k % 6],
                                   "identical_scalars": k % 7 == 0},
                      "cfg_seed": int(rng.integers(1 << 30)), "cfg_index": k % 4, "numeric": k % (6 if tier == "quick" else 10) == 0, "cost": 2.0})
    for k in range(40 if tier == "quick" else 600):
        cases.append({"reaction": {"kind": "synth_multi", "seed": int(rng.integers(1 << 30)), "formalism": ["helicity", "canonical-helicity"][k % 2]},
                      "cfg_seed": int(rng.integers(1 << 30)), "cfg_index": k % 3, "numeric": k % 8 == 0, "cost": 2.0})
    return cases


def setup_worker(rec, ctx):
    from ampform.helicity import HelicityAmplitudeBuilder
    from vmon.core import attach
    from vmon.refmodel.closure import judge_closure

    def ensure(old, model, self):
        feats = dict(ctx.get("feats") or {})
        judge_closure(rec, model, feats, ctx.get("label", "model"))
        ctx["last_model"] = model

    def on_raise(old, exc, self):
        feats = dict(ctx.get("feats") or {})
        rec.check(False, "formulate_raises", f"{ctx.get('label', 'model')}: formulate() raised {type(exc).__name__}: {str(exc)[:300]}",
                  {"exception": repr(exc)[:500]}, {**feats, "exception": type(exc).__name__})
        ctx["raised"] = True

    attach(HelicityAmplitudeBuilder, "formulate", hook="HelicityAmplitudeBuilder.formulate", rec=rec, ensure=ensure, on_raise=on_raise)


def make_reaction(desc):
    from vmon.workloads import reactions as R
    if desc["kind"] == "fixture":
        return R.load_fixture(desc["name"]), desc["name"]
    if desc["kind"] == "synth_multi":
        for attempt in range(10):
            r = R.synth_multi_topology_general(desc["seed"] + attempt, desc.get("formalism", "helicity"))
            if r is not None:
                return r, f"synth_multi:{desc['seed']}:{attempt}"
        return None, None
    rng = np.random.default_rng([desc["seed"]])
    for attempt in range(30):
        spec = R.synth_spec(rng, formalism=desc["formalism"], partial=desc.get("partial"), identical_scalars=desc.get("identical_scalars", False),
                            max_transitions=desc.get("max_transitions", 160), shuffle_names=desc["seed"] % 2 == 1)
        r = R.build_synth(spec)
        if r is not None:
            return r, f"synth:{desc['seed']}:{attempt}"
    return None, None


def run_case(case, rec, ctx):
    from vmon.core import digest
    from vmon.refmodel.closure import judge_evaluable, reaction_features
    from vmon.workloads import configs as C
    from vmon.workloads import reactions as R

    reaction, rname = make_reaction(case["reaction"])
    if reaction is None:
        rec.note("synthetic_reaction_not_constructible")
        return
    rng = np.random.default_rng([case["cfg_seed"]])
    cfg = C.default_config() if case["cfg_index"] == 0 else C.draw_config(rng, reaction)
    if cfg["align"].startswith("dpd"):
        # DPD needs final-state ids 1,2,3: relabel first, then draw the id-dependent settings on the relabelled reaction
        reaction = C.prepare_reaction(reaction, cfg)
        align = cfg["align"]
        cfg = C.draw_config(np.random.default_rng([case["cfg_seed"], 1]), reaction, allow_align=False)
        cfg["align"] = align
        cfg["permutate"] = False
    rfeat = reaction_features(reaction)
    feats = {**rfeat, "align": cfg["align"], "stable": cfg["stable"] is not None, "scalar_mass": cfg["scalar_mass"],
             **R.massless_alignment_features(reaction, cfg["align"]),
             "couplings": cfg["couplings"], "permutate": cfg["permutate"], "has_dynamics": bool(cfg["dynamics"]),
             "subthreshold_resonance_with_energy_dependent_width": C.subthreshold_energy_dependent_width(reaction, cfg)}
    ctx["feats"] = feats
    ctx["label"] = f"{rname} [{C.config_key(cfg)}]"
    ctx["raised"] = False
    ctx["last_model"] = None
    try:
        r2, b = C.build(reaction, cfg)
    except Exception as exc:  # noqa: BLE001
        rec.check(False, "configure_raises", f"{ctx['label']}: configuring the builder raised {type(exc).__name__}: {str(exc)[:200]}", None, feats)
        return
    try:
        model = b.formulate()  # judged by the attached post-condition
    except Exception:  # noqa: BLE001
        return
    nontrivial = len(model.amplitudes) >= 2 and case["cfg_index"] != 0
    rec.case((digest(R.reaction_summary(reaction)) + rname, C.config_key(cfg)), nontrivial, formalism=reaction.formalism, n_final=rfeat["n_final"],
             align=cfg["align"], n_topologies=rfeat["n_topologies"], kind=case["reaction"]["kind"],
             absent_outer_combination=rfeat["has_absent_outer_combination"])
    rec.sample(f"{case['reaction']['kind']}:{cfg['align']}", {"reaction": R.reaction_summary(reaction), "config": C.config_key(cfg),
                                                             "n_amplitudes": len(model.amplitudes), "n_parameters": len(model.parameter_defaults),
                                                             "kinematic_variables": [str(k) for k in model.kinematic_variables][:12]})
    too_costly = (cfg["align"] == "axisangle" and (C.axis_angle_terms(reaction) > 300 or (len(reaction.final_state) >= 4 and ctx["tier"] == "quick"))) or \
        (cfg["align"].startswith("dpd") and len(reaction.final_state) == 3 and C.dpd_cost(reaction) > (15000 if ctx["tier"] == "quick" else 100000))
    if too_costly:
        rec.note("numeric_subsample_skipped:alignment_cost")
    if case["numeric"] and not too_costly:
        judge_evaluable(rec, model, feats, rng, ctx["label"])
    # builder history: the same builder is re-configured and formulates again (twice); the post-condition judges every model,
    # so state carried from one formulate() call to the next (memoised lineshapes, registered topologies, ...) shows up here
    if case["idx"] % 2 == 0 and cfg["align"] != "axisangle" and len(model.amplitudes) <= 60:
        ctx["label"] = ctx["label"] + " [re-formulated on the same builder]"
        ctx["feats"] = {**feats, "reformulated": True}
        try:
            b.config.scalar_initial_state_mass = not b.config.scalar_initial_state_mass
            rec.hit("history:reformulate")
            b.formulate()
            b.config.use_helicity_couplings = not b.config.use_helicity_couplings
            b.formulate()
        except Exception:  # noqa: BLE001, S110  (reported by the on_raise monitor of formulate)
            pass


META = {
    "technique": "runtime post-condition on HelicityAmplitudeBuilder.formulate (closure of symbols: parameter xor kinematic variable, every amplitude defined, kinematic variables closed over four-momenta) over fixture and synthetic reactions x generated builder configurations, with a numeric evaluation subsample",
    "level_text": "Every model returned by formulate() in the workload is judged by set algebra on expression.free_symbols, the Indexed amplitude atoms left in the unfolded intensity, the two key sets and the free symbols of every kinematic-variable expression after inserting the defaults; a subsample is evaluated end-to-end from generated four-momenta and must be finite, real and non-negative. Workload: all 70 qrules fixtures x 3 (thorough 25) configurations and 120 (thorough 2500) synthetic reactions (2..5 bodies, half-integer spins, massless, parity nodes, partial helicity sets, identical scalars). Every second case re-configures the same builder and formulates twice more (builder history); synthetic particle names are shuffled so that alphabetical and id order differ; general multi-topology synthetic reactions are included.",
    "level_note": "qrules and the synthetic generator define what a valid ReactionInfo is; exceptions raised by formulate() for a valid input are reported as violations.",
}
