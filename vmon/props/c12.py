"""C12 — lineshape normalisations hold and builder API equals function API."""
from __future__ import annotations

import itertools

import numpy as np

ID = "C12"
LEVEL = "exploration"
RULE = ("case = (check, L, phase-space factor | builder flags, mass/radius decade); contracts on "
        "RelativisticBreitWignerBuilder.__call__ and the convenience builders judge every call against the "
        "public function API; distinct = that tuple; non-trivial iff L >= 1 or the phase-space factor is not the "
        "default or a builder flag is set")
ASSUMPTIONS = ["SciPy spherical Bessel functions (h = j + i y) as the Blatt-Weisskopf reference",
               "numeric equality at sampled (s, masses, radius) points"]
FLOORS = {"quick": {"evaluations": 500, "distinct_nontrivial": 60,
                    "hooks": ["RelativisticBreitWignerBuilder.__call__", "lambdify:EnergyDependentWidth", "lambdify:BlattWeisskopfSquared"]},
          "thorough": {"evaluations": 4000, "distinct_nontrivial": 150,
                       "hooks": ["RelativisticBreitWignerBuilder.__call__", "lambdify:EnergyDependentWidth", "lambdify:BlattWeisskopfSquared"]}}
CASE_TIMEOUT = {"quick": 240, "thorough": 900}
PHSP = ["PhaseSpaceFactor", "PhaseSpaceFactorAbs", "PhaseSpaceFactorComplex", "PhaseSpaceFactorSWave", "EqualMassPhaseSpaceFactor"]
EPS = np.finfo(float).eps


def plan(tier, seed):
    Lmax = 6 if tier == "quick" else 10
    cases = []
    for L in range(0, Lmax + 1):
        cases.append({"check": "blatt_weisskopf", "L": L, "cost": 1.0 + 0.6 * L})
    for ph, L in itertools.product(PHSP, range(0, min(Lmax, 8) + 1)):
        for rep in range(1 if tier == "quick" else 6):
            cases.append({"check": "width_norm", "phsp": ph, "L": L, "rep": rep, "cost": 1.0 + 0.3 * L})
    for ff, edw in itertools.product((False, True), repeat=2):
        for ph in PHSP:
            for L in ((0, 1, 2, 3) if tier == "quick" else (0, 1, 2, 3, 4, 5, 6, 7, 8)):
                if not edw and ph != "PhaseSpaceFactor":
                    continue  # phsp_factor is unused without energy-dependent width
                for rep in range(2 if tier == "quick" else 12):
                    cases.append({"check": "builder", "ff": ff, "edw": edw, "phsp": ph, "L": L, "rep": rep, "cost": 1.5 + 0.4 * L})
    for name in ("create_relativistic_breit_wigner", "create_relativistic_breit_wigner_with_ff",
                 "create_analytic_breit_wigner", "create_non_dynamic_with_ff", "create_non_dynamic"):
        for L in (0, 2, None):
            cases.append({"check": "convenience", "name": name, "L": L, "cost": 1.5})
    return cases


def setup_worker(rec, ctx):
    import sympy as sp
    import ampform.dynamics as D
    import ampform.dynamics.builder as B
    from vmon.core import attach, rebind_aliases

    ctx["D"], ctx["B"] = D, B

    def ensure_call(old, result, self, resonance, variable_pool):
        _judge_builder(rec, ctx, self.form_factor, self.energy_dependent_width, self.phsp_factor, resonance,
                       variable_pool, result, "RelativisticBreitWignerBuilder.__call__")

    attach(B.RelativisticBreitWignerBuilder, "__call__", hook="RelativisticBreitWignerBuilder.__call__", rec=rec, ensure=ensure_call)
    # convenience builders are bound methods captured at import time: re-bind them to the patched method
    for name in ("create_relativistic_breit_wigner", "create_relativistic_breit_wigner_with_ff", "create_analytic_breit_wigner"):
        old = getattr(B, name)
        new = old.__self__.__call__
        setattr(B, name, new)
        rec.hit("convenience_rebound", 1 + rebind_aliases(old, new))


def _particle(rng, name="R"):
    from vmon.workloads.reactions import make_particle
    return make_particle(name, 1, -1, float(np.round(rng.uniform(0.8, 2.0), 4)), float(np.round(rng.uniform(0.05, 0.4), 4)), pid=77)


def _pool(ctx, L):
    import sympy as sp
    B = ctx["B"]
    return B.TwoBodyKinematicVariableSet(
        incoming_state_mass=sp.Symbol("m_12", nonnegative=True), outgoing_state_mass1=sp.Symbol("m_1", nonnegative=True),
        outgoing_state_mass2=sp.Symbol("m_2", nonnegative=True), helicity_theta=sp.Symbol("theta_1^12", real=True),
        helicity_phi=sp.Symbol("phi_1^12", real=True), angular_momentum=L)


def _points(rng, particle, n=24):
    ma = float(rng.uniform(0.05, 0.45)); mb = float(rng.uniform(0.05, 0.45))
    if rng.uniform() < 0.3:
        mb = ma
    thr = ma + mb
    m = np.concatenate([rng.uniform(thr * 1.001, thr * 1.5, n // 3), rng.uniform(thr * 1.5, 3.0, n // 3),
                        particle.mass * (1 + rng.uniform(-0.05, 0.05, n - 2 * (n // 3)))])
    m = np.maximum(m, thr * 1.0005)
    return m, ma, mb


def _evalf(expr, values):
    from vmon.numeval import eval_expr
    return np.asarray(eval_expr(expr, values, fast=False, cse=True)) * np.ones(len(values["__n__"])) if False else eval_expr(expr, {k: v for k, v in values.items() if not isinstance(k, str)}, fast=False)


def _judge_builder(rec, ctx, ff, edw, phsp, resonance, pool, result, hook):
    """Contract: builder output == public function API at sampled points, defaults == particle table."""
    import sympy as sp
    D = ctx["D"]
    expr, pars = result
    rng = ctx.get("case_rng") or np.random.default_rng(0)
    ident = resonance.latex or resonance.name
    m0 = sp.Symbol(f"m_{{{ident}}}", nonnegative=True)
    g0 = sp.Symbol(Rf"\Gamma_{{{ident}}}", nonnegative=True)
    d = sp.Symbol(f"d_{{{ident}}}", positive=True)
    s = pool.incoming_state_mass ** 2
    L = pool.angular_momentum
    feats = {"ff": bool(ff), "edw": bool(edw), "phsp": getattr(phsp, "__name__", str(phsp)), "L": L}
    if edw and ff:
        ref = D.relativistic_breit_wigner_with_ff(s, m0, g0, pool.outgoing_state_mass1, pool.outgoing_state_mass2, L, d, phsp)
    elif edw:
        ref = D.relativistic_breit_wigner_with_ff(s, m0, g0, pool.outgoing_state_mass1, pool.outgoing_state_mass2, L, d, phsp) \
            / D.FormFactor(s, pool.outgoing_state_mass1, pool.outgoing_state_mass2, L, d)
    elif ff:
        ref = D.FormFactor(s, pool.outgoing_state_mass1, pool.outgoing_state_mass2, L, d) * D.relativistic_breit_wigner(s, m0, g0)
    else:
        ref = D.relativistic_breit_wigner(s, m0, g0)
    want_pars = {m0: resonance.mass, g0: resonance.width}
    if edw or ff:
        want_pars[d] = 1
    ok = dict(pars) == want_pars
    rec.check(ok, "builder_defaults", f"builder parameter defaults {pars} != particle table {want_pars}", {"resonance": resonance.name}, feats)
    extra = set(expr.free_symbols) - set(want_pars) - {pool.incoming_state_mass, pool.outgoing_state_mass1, pool.outgoing_state_mass2}
    rec.check(not extra, "builder_symbols", f"builder expression depends on unexpected symbols {extra}", None, feats)
    m, ma, mb = _points(rng, resonance)
    vals = {pool.incoming_state_mass: m, pool.outgoing_state_mass1: ma, pool.outgoing_state_mass2: mb,
            m0: float(resonance.mass), g0: float(resonance.width), d: float(rng.uniform(0.5, 3.0))}
    from vmon.numeval import eval_expr
    a = np.asarray(eval_expr(expr, vals, fast=False)) * np.ones(len(m))
    b = np.asarray(eval_expr(ref, vals, fast=False)) * np.ones(len(m))
    okv = np.abs(a - b) <= 1e-10 * (np.abs(a) + np.abs(b)) + 1e-300
    # a resonance below its decay threshold makes rho(m0^2) the square root of a negative real: NaN on *both* sides is agreement
    okv |= np.isnan(a) & np.isnan(b)
    i = int(np.argmin(okv))
    rec.check(bool(okv.all()), "builder_vs_function",
              f"builder(ff={ff}, edw={edw}, phsp={feats['phsp']}, L={L}) = {a[i]} but public function API = {b[i]} at m={m[i]}",
              {"m": m[i], "ma": ma, "mb": mb, "resonance": resonance.name, "mass0": resonance.mass, "width0": resonance.width}, feats)
    rec.case(("builder", bool(ff), bool(edw), feats["phsp"], L), bool(ff or edw or (L or 0) > 0), check="builder_contract", L=L, phsp=feats["phsp"])


def run_case(case, rec, ctx):
    import sympy as sp
    from scipy.special import spherical_jn, spherical_yn
    from vmon.core import CaseTimeout, watchdog
    D, B = ctx["D"], ctx["B"]
    rng = np.random.default_rng([ctx["seed"], 12, case["idx"]])
    ctx["case_rng"] = rng
    chk = case["check"]
    if chk == "blatt_weisskopf":
        L = case["L"]
        z = sp.Symbol("z", positive=True)
        f = sp.lambdify(z, D.BlattWeisskopfSquared(z, L).doit())
        rec.hit("lambdify:BlattWeisskopfSquared")
        feats = {"check": chk, "L": L}
        rec.case(("bw", L), L >= 1, check=chk, L=L)
        rec.sample("blatt_weisskopf", {"L": L, "expr": str(D.BlattWeisskopfSquared(z, L).doit())[:200]})
        one = float(f(1.0))
        rec.check(abs(one - 1) <= 64 * EPS, "bw_unity", f"B_{L}^2(1) = {one!r} != 1", {"L": L}, feats)
        zs = 10 ** np.linspace(-8, 8, 161)
        v = np.asarray(f(zs), dtype=float) * np.ones_like(zs)

        def ref(zv):
            h = lambda x: spherical_jn(L, x) + 1j * spherical_yn(L, x)  # noqa: E731
            return np.abs(h(1.0)) ** 2 / (np.abs(h(np.sqrt(zv))) ** 2 * zv)
        r = ref(zs)
        ok = np.abs(v / r - 1) <= 1e-9
        i = int(np.argmin(ok))
        rec.check(bool(ok.all()), "bw_hankel_reference", f"B_{L}^2({zs[i]:.3g}) = {v[i]!r} but Hankel definition (SciPy) = {r[i]!r}", {"L": L, "z": zs[i]}, feats)
        # threshold power law: B(z) ~ z^L
        ratio = float(f(1e-6)) / float(f(1e-8))
        rec.check(abs(ratio / 100.0 ** L - 1) <= 1e-4, "bw_threshold_power", f"B_{L}^2(1e-6)/B_{L}^2(1e-8) = {ratio!r} != 100^{L}", {"L": L}, feats)
        rec.check(bool(np.all(np.diff(v) >= -1e-12 * np.abs(v[1:])) and v.max() <= v[-1] * (1 + 1e-9) and np.isfinite(v).all()), "bw_bounded",
                  f"B_{L}^2 is not monotonically increasing and bounded on [1e-8, 1e8] (max {v.max()})", {"L": L}, feats)
        lim = float(f(1e12))
        # large-z limit is |h_L(1)|^2 (finite)
        rec.check(abs(lim / float(np.abs(spherical_jn(L, 1.0) + 1j * spherical_yn(L, 1.0)) ** 2) - 1) <= 1e-6, "bw_bounded",
                  f"B_{L}^2(z->inf) = {lim} != |h_L(1)|^2", {"L": L}, feats)
        # symbolic-L path (defining Hankel expression) vs integer (polynomial) path
        ell = sp.Symbol("ell", integer=True, nonnegative=True)
        sym = D.BlattWeisskopfSquared(z, ell).doit()
        for zv in (0.013, 0.7, 1.0, 4, 9.5, 312.0):
            b = float(f(zv))
            try:
                with watchdog(20):
                    a = complex(sym.subs(ell, L).doit().subs(z, zv).evalf())
            except CaseTimeout:
                rec.inconclusive_event("symbolic-L route did not finish in 20 s", f"L={L}, z={zv}")
                continue
            except Exception as exc:  # noqa: BLE001
                # unfolding with a symbolic L and inserting the integer afterwards is a documented route (issue 426)
                rec.check(False, "bw_polynomial_vs_hankel", f"symbolic-L route B_ell^2(z).doit() with ell={L}, z={zv} inserted afterwards cannot be evaluated "
                          f"({type(exc).__name__}: {str(exc)[:120]}); polynomial path gives {b!r}", {"L": L, "z": zv}, feats)
                continue
            rec.check(abs(a - b) <= 1e-10 * abs(b), "bw_polynomial_vs_hankel", f"polynomial path B_{L}^2({zv}) = {b!r} but symbolic-L Hankel path = {a!r}", {"L": L, "z": zv}, feats)
        return
    if chk == "width_norm":
        L, ph = case["L"], getattr(D, case["phsp"])
        s, m0, w0, m1, m2, d = sp.symbols("s m0 Gamma0 m1 m2 d", positive=True)
        feats = {"check": chk, "L": L, "phsp": case["phsp"]}
        rec.case(("width", case["phsp"], L), L >= 1 or case["phsp"] != "PhaseSpaceFactor", check=chk, L=L, phsp=case["phsp"])
        e0 = D.EnergyDependentWidth(m0 ** 2, m0, w0, m1, m2, L, d, phsp_factor=ph).doit()
        f0 = sp.lambdify([m0, w0, m1, m2, d], e0)
        e = D.EnergyDependentWidth(s, m0, w0, m1, m2, L, d, phsp_factor=ph).doit()
        f = sp.lambdify([s, m0, w0, m1, m2, d], e)
        rec.hit("lambdify:EnergyDependentWidth")
        n = 40
        M1 = 10 ** rng.uniform(-2, 0.5, n); M2 = np.where(rng.uniform(size=n) < 0.3, M1, 10 ** rng.uniform(-2, 0.5, n))
        # resonance above, between and below threshold
        M0 = (M1 + M2) * np.concatenate([1 + 10 ** rng.uniform(-3, 1, n - 10), rng.uniform(0.3, 0.99, 10)])
        W0 = 10 ** rng.uniform(-3, 0, n); Dd = 10 ** rng.uniform(-1, 1, n)
        rec.sample("width_norm", {"phsp": case["phsp"], "L": L, "m0": M0[0], "m1": M1[0], "m2": M2[0], "d": Dd[0]})
        with np.errstate(all="ignore"):
            a = np.asarray(f0(M0.astype(complex), W0, M1, M2, Dd)) * np.ones(n)
            b = np.asarray(f(M0.astype(complex) ** 2, M0.astype(complex), W0, M1, M2, Dd)) * np.ones(n)
        above = M0 > (M1 + M2)
        # empirical conditioning (Chew-Mandelstam logs cancel for hierarchical masses): rounding-level input noise must not
        # be read as a defect - the output change under three 1e-13 relative perturbations, times 1e3, widens the tolerance
        noise = np.zeros(n)
        with np.errstate(all="ignore"):
            for _ in range(3):
                pert = [x * (1 + 1e-13 * rng.normal(size=n)) for x in (M0, M1, M2, Dd)]
                bp = np.asarray(f(pert[0].astype(complex) ** 2, pert[0].astype(complex), W0, pert[1], pert[2], pert[3])) * np.ones(n)
                dlt = np.abs(bp - b)
                noise = np.maximum(noise, np.where(np.isfinite(dlt), dlt, np.inf))
        rec.stratum("width_norm_conditioning", "well" if np.median(noise / W0) < 1e-12 else "ill")
        for nm, v in (("symbolic s=m0^2", a), ("numeric s=m0^2", b)):
            # below threshold rho(m0^2) may vanish/be complex: ratio rho/rho0 is still 1 wherever it is defined
            good = np.isfinite(v)
            ok = (np.abs(v - W0) <= 1e-9 * W0 + 1e3 * noise) | ~good
            i = int(np.argmin(ok))
            rec.check(bool(ok.all()), "width_normalisation", f"Gamma(m0^2) = {v[i]} != Gamma0 = {W0[i]} ({nm}, {case['phsp']}, L={L})",
                      {"m0": M0[i], "m1": M1[i], "m2": M2[i], "d": Dd[i]}, feats)
            rec.check(bool(good[above].all()), "width_normalisation", f"Gamma(m0^2) not finite above threshold ({nm}, {case['phsp']}, L={L})", None, feats)
        # documented formula (PDG 50.28 with the normalised barrier factor): Gamma(s) = Gamma0 B_L^2(z)/B_L^2(z0) rho/rho0
        if case["phsp"] in ("PhaseSpaceFactor", "PhaseSpaceFactorAbs", "PhaseSpaceFactorComplex"):
            k = above
            S = (M1 + M2) ** 2 * (1 + 10 ** rng.uniform(-2, 1.5, n))
            q2 = lambda sv: (sv - (M1 + M2) ** 2) * (sv - (M1 - M2) ** 2) / (4 * sv)  # noqa: E731

            def bl2(zv):
                h = lambda x: spherical_jn(L, x) + 1j * spherical_yn(L, x)  # noqa: E731
                return np.abs(h(1.0)) ** 2 / (np.abs(h(np.sqrt(zv))) ** 2 * zv)
            ref = W0 * bl2(q2(S) * Dd ** 2) / bl2(q2(M0 ** 2) * Dd ** 2) * np.sqrt(q2(S) / S) / np.sqrt(q2(M0 ** 2) / M0 ** 2)
            with np.errstate(all="ignore"):
                got = np.asarray(f(S.astype(complex), M0.astype(complex), W0, M1, M2, Dd)) * np.ones(n)
            ok = (np.abs(got - ref) <= 1e-8 * np.abs(ref)) | ~k
            i = int(np.argmin(ok))
            rec.check(bool(ok.all()), "width_formula", f"Gamma(s) = {got[i]} but Gamma0 (B_L^2(z)/B_L^2(z0)) (rho/rho0) = {ref[i]} ({case['phsp']}, L={L})",
                      {"s": S[i], "m0": M0[i], "m1": M1[i], "m2": M2[i], "d": Dd[i]}, feats)
        return
    if chk == "builder":
        ph = getattr(D, case["phsp"])
        if case["rep"] % 2:
            # positional construction in the documented order (form_factor, energy_dependent_width, phsp_factor)
            builder = B.RelativisticBreitWignerBuilder(case["ff"], case["edw"], ph)
            rec.check(builder.form_factor == case["ff"] and builder.energy_dependent_width == case["edw"] and builder.phsp_factor is ph, "builder_constructor",
                      f"RelativisticBreitWignerBuilder({case['ff']}, {case['edw']}, {case['phsp']}) positionally gives form_factor={builder.form_factor}, "
                      f"energy_dependent_width={builder.energy_dependent_width}", None, {"check": "builder", "construction": "positional"})
        else:
            builder = B.RelativisticBreitWignerBuilder(form_factor=case["ff"], energy_dependent_width=case["edw"], phsp_factor=ph)
        res = _particle(rng)
        rec.sample("builder", {**case, "resonance": {"mass": res.mass, "width": res.width}})
        builder(res, _pool(ctx, case["L"]))  # judged by the attached contract
        if not case["edw"] and not case["ff"]:
            builder(res, _pool(ctx, None))
        # history on this one builder: its public attributes are reassigned between calls for the *same* resonance and
        # variable pool (every call is judged against the attribute values it sees)
        pool_ = _pool(ctx, case["L"])
        for step in range(4):
            builder.phsp_factor = getattr(D, PHSP[(PHSP.index(case["phsp"]) + 1 + step) % len(PHSP)])
            if step % 2:
                builder.form_factor = not builder.form_factor
            if step == 2:
                builder.energy_dependent_width = not builder.energy_dependent_width
            rec.hit("history:builder_reconfigured")
            builder(res, pool_)
        return
    if chk == "convenience":
        name, L = case["name"], case["L"]
        fn = getattr(B, name)
        res = _particle(rng, "Q")
        pool = _pool(ctx, L)
        feats = {"check": chk, "name": name, "L": L}
        rec.case(("convenience", name, L), True, check=chk, L=L)
        needs_L = name in ("create_relativistic_breit_wigner_with_ff", "create_analytic_breit_wigner", "create_non_dynamic_with_ff")
        before = rec.hits["RelativisticBreitWignerBuilder.__call__"]
        try:
            expr, pars = fn(res, pool)
        except ValueError as exc:
            rec.check(needs_L and L is None, "convenience_raises", f"{name} raised {exc!r} for L={L}", None, feats)
            return
        rec.check(not (needs_L and L is None), "convenience_missing_L", f"{name} accepted a missing angular momentum", None, feats)
        if name.startswith("create_non_dynamic"):
            s = pool.incoming_state_mass ** 2
            if name == "create_non_dynamic":
                rec.check(expr == 1 and pars == {}, "convenience_value", "create_non_dynamic != (1, {})", None, feats)
            else:
                d = sp.Symbol(f"d_{{{res.name}}}", positive=True)
                ref = ctx["D"].FormFactor(s, pool.outgoing_state_mass1, pool.outgoing_state_mass2, L, d)
                rec.check(expr == ref and dict(pars) == {d: 1}, "convenience_value", f"create_non_dynamic_with_ff = {expr}, {pars}", None, feats)
            return
        want = {"create_relativistic_breit_wigner": (False, False, "PhaseSpaceFactor"),
                "create_relativistic_breit_wigner_with_ff": (True, True, "PhaseSpaceFactor"),
                "create_analytic_breit_wigner": (True, True, "EqualMassPhaseSpaceFactor")}[name]
        rec.check(rec.hits["RelativisticBreitWignerBuilder.__call__"] > before, "convenience_unmonitored",
                  f"{name} bypassed the builder contract", None, feats)
        inst = fn.__self__
        got = (bool(inst.form_factor), bool(inst.energy_dependent_width), inst.phsp_factor.__name__)
        rec.check(got == want, "convenience_flags", f"{name} is configured as {got}, documented as {want}", None, feats)
        _judge_builder(rec, ctx, want[0], want[1], getattr(D, want[2]), res, pool, (expr, pars), name)


META = {
    "technique": "runtime contracts on RelativisticBreitWignerBuilder.__call__ / convenience builders (judged against the public function API) and on EnergyDependentWidth / BlattWeisskopfSquared evaluations (SciPy Hankel reference), over L, phase-space factors and parameter decades",
    "level_text": "Every builder call in the workload (4 flag combinations x 5 phase-space factors x L, plus the five convenience builders) is judged by a post-condition that evaluates the returned expression and the documented public-function composition at 24 sampled masses, and checks the parameter defaults against the particle; width normalisation is evaluated for 5 phase-space factors x L 0..6 x 40 parameter sets (resonance above and below threshold); Blatt-Weisskopf unity/threshold power/monotone-bounded/Hankel-reference/polynomial-vs-symbolic-L for L 0..4 (thorough 0..10). Builders are constructed by keyword and positionally; every builder case re-assigns the builder's public attributes four times with a call after each; the symbolic-L route of the Blatt-Weisskopf factor is guarded.",
    "level_note": "SciPy spherical Bessel functions trusted; equality is numeric at sampled points.",
}
