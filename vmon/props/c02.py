"""C02 — model intensity equals the helicity formula evaluated on the transitions."""
from __future__ import annotations

from collections import Counter

import numpy as np

ID = "C02"
LEVEL = "exploration"
RULE = ("case = (reaction, mode): reactions are qrules fixtures and synthetic reactions (spins up to 3 for <= 3 bodies, "
        "1..4 decay nodes, both formalisms); mode = coefficient vs helicity-coupling x naming flags x (no dynamics | "
        "Breit-Wigner). Monitors: post-conditions on formulate_isobar_wigner_d / formulate_isobar_cg_coefficients, a "
        "recording hook on the per-chain method, and a post-condition on formulate comparing every chain, amplitude, "
        "component and the intensity with the reference formula at 4 random angle/mass points and random complex "
        "parameters. distinct = (spin content per node, formalism, mode); non-trivial iff some node has J >= 1/2 and "
        ">= 2 chains interfere in one amplitude")
ASSUMPTIONS = ["reference: Jacob-Wick helicity formula with gamma=0, CG via sympy.physics.wigner (Racah), numeric Wigner-D checked against SymPy at start-up",
               "angles and masses are independent random inputs here (their kinematic meaning is C07)"]
FLOORS = {"quick": {"evaluations": 3000, "distinct_nontrivial": 40,
                    "hooks": ["formulate_isobar_wigner_d", "HelicityAmplitudeBuilder.__formulate_sequential_decay", "HelicityAmplitudeBuilder.formulate"]},
          "thorough": {"evaluations": 30000, "distinct_nontrivial": 150,
                       "hooks": ["formulate_isobar_wigner_d", "HelicityAmplitudeBuilder.__formulate_sequential_decay", "HelicityAmplitudeBuilder.formulate"]}}
CASE_TIMEOUT = {"quick": 300, "thorough": 900}
WALL_BUDGET = {"quick": 900, "thorough": 10800}
TOL = 1e-9


def plan(tier, seed):
    from vmon.workloads.reactions import fixture_names
    rng = np.random.default_rng([seed, 2])
    cases = []
    for name in fixture_names():
        big = name.startswith(("psi2s", "lambdab", "jpsi_p_pbar_pi0__n1440_n1520", "jpsi_p_pbar_pi0__n1440_both")) and name.endswith(".can")
        modes = [0] if (tier == "quick" or big) else [0, 1, 2, 3]
        if tier == "quick" and big:
            continue
        for mode in modes:
            cases.append({"reaction": {"kind": "fixture", "name": name}, "mode": mode, "seed": int(rng.integers(1 << 30)), "cost": 6.0 if name.endswith(".can") else 3.0})
    for k in range(30 if tier == "quick" else 400):
        cases.append({"reaction": {"kind": "synth_multi", "seed": int(rng.integers(1 << 30)), "formalism": ["helicity", "canonical-helicity"][k % 2]},
                      "mode": k % 4, "seed": int(rng.integers(1 << 30)), "cost": 2.5})
    n_syn = 90 if tier == "quick" else 1500
    for k in range(n_syn):
        cases.append({"reaction": {"kind": "synth", "seed": int(rng.integers(1 << 30)), "formalism": ["helicity", "canonical-helicity"][k % 2],
                                   "max_spin2": 6 if k % 3 == 0 else 4, "n_final": [2, 3, 3, 3, 4, 4][k % 6] if k % 10 else 5,
                                   "identical_scalars": k % 8 == 0},
                      "mode": k % 4, "seed": int(rng.integers(1 << 30)), "cost": 2.5})
    return cases


def _max_l(reaction, name) -> int:
    out = 0
    for t in reaction.transitions:
        for node in t.topology.nodes:
            pin = next(iter(t.topology.get_edge_ids_ingoing_to_node(node)))
            if t.states[pin].particle.name == name:
                L = t.interactions[node].l_magnitude
                out = max(out, int(L) if L is not None else int(float(t.states[pin].particle.spin)))
    return out


def mode_config(mode, reaction, rng):
    from vmon.workloads import configs as C
    cfg = C.default_config()
    if mode in (1, 3):
        cfg["couplings"] = True
    if mode >= 2:
        cfg["naming"] = {"parent": bool(rng.uniform() < 0.5), "child": bool(rng.uniform() < 0.6), "ls": bool(rng.uniform() < 0.6)}
        # Breit-Wigner, or (where the node's L is known and <= 4) Breit-Wigner with form factor and energy-dependent width
        cfg["dynamics"] = [{"select": "name", "target": n, "builder": "bw_ff" if (mode == 3 and C.l_available(reaction, n) and _max_l(reaction, n) <= 4) else "bw"}
                           for n in C.resonances(reaction) if rng.uniform() < 0.7]
    return cfg


def setup_worker(rec, ctx):
    import ampform.helicity as H
    from vmon.core import attach
    from vmon.numeval import selftest_wigner
    from vmon.refmodel.helicity import ChainLog, node_info

    dev = selftest_wigner(6)
    rec.check(dev < 1e-12, "harness_selftest", f"numeric Wigner-D deviates from SymPy by {dev}", None, {"selftest": True})
    log = ctx["log"] = ChainLog()
    log.install(rec)
    ctx["wd_rng"] = np.random.default_rng([ctx["seed"], 2, 999])

    def ensure_wigner(old, result, transition, node_id):
        from vmon.numeval import eval_expr, wigner_D_num
        import sympy as sp
        i = node_info(transition, node_id)
        rng = ctx["wd_rng"]
        phi, th = rng.uniform(-3, 3, 3), rng.uniform(0.1, 3.0, 3)
        vals = {s: (phi if s.name == "phi" + i["suffix"] else th if s.name == "theta" + i["suffix"] else None) for s in result.free_symbols}
        feats = {"hook": "formulate_isobar_wigner_d", "J": str(i["J"])}
        if any(v is None for v in vals.values()) or len(vals) > 2:
            rec.check(False, "wigner_d_symbols", f"formulate_isobar_wigner_d uses symbols {sorted(map(str, result.free_symbols))}, expected phi{i['suffix']}, theta{i['suffix']}",
                      {"node": node_id}, feats)
            return
        got = eval_expr(result, vals) if vals else complex(sp.N(result.doit()))
        ref = wigner_D_num(i["J"], i["m"], i["l1"] - i["l2"], -phi, th, 0)
        rec.check(bool(np.allclose(got, ref, rtol=1e-10, atol=1e-12)), "wigner_d_value",
                  f"formulate_isobar_wigner_d(node {node_id}) = {result} but conj-D^J_(m, l1-l2)(phi, theta) with J={i['J']}, m={i['m']}, l1={i['l1']}, l2={i['l2']} differs numerically",
                  {"expr": str(result), "J": str(i["J"]), "m": str(i["m"]), "l1": str(i["l1"]), "l2": str(i["l2"])}, feats)

    def ensure_cg(old, result, transition, node_id):
        import sympy as sp
        from vmon.numeval import cg_ref
        i = node_info(transition, node_id)
        d = i["l1"] - i["l2"]
        ref = cg_ref(i["L"], 0, i["S"], d, i["J"], d) * cg_ref(i["s1"], i["l1"], i["s2"], -i["l2"], i["S"], d)
        got = float(sp.N(result.doit()))
        rec.check(abs(got - ref) <= 1e-12, "cg_value",
                  f"formulate_isobar_cg_coefficients(node {node_id}) = {result} = {got} but CG(L0;Sd|Jd) CG(s1 l1; s2 -l2|S d) = {ref} (L={i['L']}, S={i['S']}, J={i['J']}, l1={i['l1']}, l2={i['l2']})",
                  {"expr": str(result)}, {"hook": "formulate_isobar_cg_coefficients"})

    attach(H, "formulate_isobar_wigner_d", hook="formulate_isobar_wigner_d", rec=rec, ensure=ensure_wigner)
    attach(H, "formulate_isobar_cg_coefficients", hook="formulate_isobar_cg_coefficients", rec=rec, ensure=ensure_cg)

    def ensure_formulate(old, model, self):
        if ctx.get("judge"):
            judge_model(rec, ctx, model, list(log.records), self.config.use_helicity_couplings)

    def snapshot(self):
        log.clear()
    attach(H.HelicityAmplitudeBuilder, "formulate", hook="HelicityAmplitudeBuilder.formulate", rec=rec, snapshot=snapshot, ensure=ensure_formulate)


def judge_model(rec, ctx, model, records, couplings):
    import sympy as sp
    from vmon.numeval import eval_expr
    from vmon.refmodel import helicity as RH

    rng = ctx["case_rng"]
    feats = dict(ctx["feats"])
    label = ctx["label"]
    reaction = model.reaction_info
    canonical = reaction.formalism != "helicity"
    n = 4
    expr_full = model.expression
    P = set(model.parameter_defaults)
    point = RH.random_point([s for s in expr_full.free_symbols if s not in P and isinstance(s, sp.Symbol)], rng, n)
    pv = {}
    for s, v in model.parameter_defaults.items():
        if s.name.startswith(("C_", "H_")):
            pv[s] = complex(rng.normal(), rng.normal())
        elif s.name.startswith(R"\Gamma"):
            pv[s] = float(rng.uniform(0.05, 0.4))
        else:
            pv[s] = float(v) if not s.name.startswith("m_{") else float(rng.uniform(0.8, 2.2))
    if any(s.name.startswith("d_{") for s in pv):
        # lineshapes with phase-space factors: physical masses (every parent above the sum of its daughters, every pole above
        # threshold) - m = 0.2 k^2 + noise for a sub-system of k final-state particles is super-additive
        import re
        for nm in list(point):
            mm = re.fullmatch(r"m_\{?(\d+)\}?", nm)
            if mm:
                k_ = len(mm.group(1))
                point[nm] = 0.2 * k_ ** 2 + rng.uniform(0, 0.1, n)
        for s in pv:
            if s.name.startswith("m_{"):
                pv[s] = float(rng.uniform(3.5, 5.5))
            elif s.name.startswith("d_{"):
                pv[s] = float(rng.uniform(0.5, 2.0))
    values = {**{s: point[s.name] for s in expr_full.free_symbols if isinstance(s, sp.Symbol) and s.name in point}, **pv}
    lineshape = RH.bw_lineshape({s.name: v for s, v in pv.items()})

    # ---- exactly-once -----------------------------------------------------------------------------------
    got_keys = Counter(RH.chain_key(tr) for tr, _ in records)
    RH.ORIGIN.clear()
    exp_keys = Counter(RH.chain_key(tr) for tr in RH.expected_chains(reaction))
    missing = exp_keys - got_keys
    extra = got_keys - exp_keys
    rec.check(not missing and not extra, "chain_multiset",
              f"{label}: formulated chains != permutation closure of the transitions: {sum(missing.values())} missing, {sum(extra.values())} formulated too often "
              f"(formulated {sum(got_keys.values())}, expected {sum(exp_keys.values())})",
              {"missing": [str(k[1:4]) for k in list(missing)[:3]], "extra": [str(k[1:4]) for k in list(extra)[:3]]}, feats)

    # ---- per chain ---------------------------------------------------------------------------------------
    groups: dict = {}
    by_coeff: dict = {}
    n_interfering = Counter()
    for tr, expr in records:
        coeff_syms = [s for s in expr.free_symbols if s in P and s.name.startswith(("C_", "H_"))]
        coeff = np.prod([pv[s] for s in coeff_syms]) if coeff_syms else 1.0
        vals = {s: values[s] for s in expr.free_symbols if isinstance(s, sp.Symbol)}
        got = np.asarray(eval_expr(expr, vals)) * np.ones(n)
        ref = RH.chain_reference(tr, point, canonical, lineshape) * coeff * np.ones(n)
        scale = np.abs(ref).max()
        if scale < 1e-13:
            ok = np.abs(got).max() < 1e-12
            sign = 0
        else:
            ratio = got / np.where(np.abs(ref) > 1e-6 * scale, ref, np.nan)
            r = ratio[np.isfinite(ratio)]
            sign = int(np.sign(r.real.mean())) if len(r) else 0
            ok = len(r) > 0 and np.allclose(r, sign, rtol=0, atol=1e-8)
        n_coeff_expected = len(tr.topology.nodes) if couplings else 1
        rec.check(bool(ok) and len(coeff_syms) == n_coeff_expected, "chain_value",
                  f"{label}: chain {_chain_str(tr)} = {got[0]:.6g} but coefficient x prod_nodes conj-D x CG x lineshape = +-{ref[0]:.6g}"
                  f" ({len(coeff_syms)} coefficient symbols, expected {n_coeff_expected})",
                  {"chain": _chain_str(tr), "expr": str(expr)[:400], "got": got, "ref": ref}, feats)
        # (helicity formalism with the default names only: there a shared coefficient means "parity partner"; canonical LS coefficients and
        # names without helicities are shared for other reasons)
        if not couplings and not canonical and ctx.get("default_naming") and len(coeff_syms) == 1 and sign in (1, -1):
            by_coeff.setdefault((coeff_syms[0], tr.topology), []).append((tr, sign))
        # a symmetrised chain (identical particles swapped) belongs to the amplitude of the transition it came from
        origin = RH.ORIGIN.get(RH.chain_key(tr), tr.topology)
        groups.setdefault((origin, RH.outer_key(tr)), []).append(got)
        n_interfering[origin, RH.outer_key(tr)] += 1

    # ---- chains that share one coefficient because they are parity partners: relative sign = prod eta over the flipped nodes
    import itertools as _it
    for (csym, _top), lst in by_coeff.items():
        pairs = list(_it.combinations(range(len(lst)), 2))[:30]
        for ia, ib in pairs:
            (ta, sa), (tb, sb) = lst[ia], lst[ib]
            expected, comparable = 1, True
            for node in sorted(ta.topology.nodes):
                na, nb = RH.node_info(ta, node), RH.node_info(tb, node)
                la, lb = (na["l1"], na["l2"]), (nb["l1"], nb["l2"])
                if la == lb:
                    continue
                e_ = RH.eta(na)
                if la == (-lb[0], -lb[1]) and ta.interactions[node].parity_prefactor is not None and e_ is not None:
                    expected *= e_
                else:
                    comparable = False
                    break
            if not comparable:
                continue
            rec.check(sa * sb == expected, "parity_partner_sign",
                      f"{label}: chains {_chain_str(ta)} and {_chain_str(tb)} share {csym} as parity partners; their relative sign is {sa * sb}, the product of the "
                      f"parity factors of the flipped nodes is {expected}", {"a": _chain_str(ta), "b": _chain_str(tb)}, feats)

    # ---- amplitudes: A^topo[outer] = sum of its chains ----------------------------------------------------
    group_sum = {k: np.sum(v, axis=0) for k, v in groups.items()}
    unmatched = dict(group_sum)
    for amp, aexpr in model.amplitudes.items():
        if aexpr == 0:
            continue
        vals = {s: values[s] for s in aexpr.free_symbols if isinstance(s, sp.Symbol)}
        v = np.asarray(eval_expr(aexpr, vals)) * np.ones(n)
        idx = tuple(float(i) for i in amp.indices)
        cands = [k for k in unmatched if k[1] == idx and np.allclose(unmatched[k], v, rtol=1e-8, atol=1e-10)]
        rec.check(bool(cands), "amplitude_value",
                  f"{label}: amplitude {amp} = {v[0]:.6g} is not the coherent sum of the chains of one topology with outer projections {idx} "
                  f"(candidates: {[f'{unmatched[k][0]:.6g}' for k in unmatched if k[1] == idx]})", {"amplitude": str(amp)}, feats)
        if cands:
            del unmatched[cands[0]]
    rec.check(not unmatched, "amplitude_missing", f"{label}: {len(unmatched)} (topology, outer projection) groups of chains have no amplitude symbol",
              {"groups": [str(k[1]) for k in list(unmatched)[:4]]}, feats)

    # ---- intensity and components ---------------------------------------------------------------------------
    outer_sum: dict = {}
    for (top, outer), v in group_sum.items():
        outer_sum[outer] = outer_sum.get(outer, 0) + v
    I_ref = sum(np.abs(v) ** 2 for v in outer_sum.values())
    I_got = np.asarray(eval_expr(expr_full, values)).real * np.ones(n)
    rec.check(bool(np.allclose(I_got, I_ref, rtol=1e-8, atol=1e-12)), "intensity_value",
              f"{label}: intensity = {I_got[:2]} but sum_outer |sum_topologies sum_chains|^2 = {np.asarray(I_ref)[:2]}",
              {"got": I_got, "ref": I_ref}, feats)
    comp_I = {k: v for k, v in model.components.items() if k.startswith("I_")}
    comp_vals = []
    for k, cexpr in comp_I.items():
        vals = {s: values[s] for s in cexpr.free_symbols if isinstance(s, sp.Symbol)}
        comp_vals.append(np.asarray(eval_expr(cexpr, vals)).real * np.ones(n))
    ref_vals = [np.abs(v) ** 2 for v in outer_sum.values()]
    ok = len(comp_vals) == len(ref_vals)
    if ok:
        rest = list(ref_vals)
        for cv in comp_vals:
            j = next((j for j, rv in enumerate(rest) if np.allclose(cv, rv, rtol=1e-8, atol=1e-12)), None)
            if j is None:
                ok = False
                break
            rest.pop(j)
    rec.check(bool(ok), "component_value", f"{label}: the I_{{...}} components are not the |coherent sum|^2 per outer spin-projection combination "
              f"({len(comp_vals)} components, {len(ref_vals)} outer combinations)", None, feats)
    comp_A = [k for k in model.components if k.startswith("A_")]
    rec.check(len(comp_A) == len({RH.chain_key(tr) for tr, _ in records}) or len(comp_A) <= len(records), "component_count",
              f"{label}: {len(comp_A)} A_{{...}} components for {len(records)} chains", None, feats)
    ctx["interfering"] = max(n_interfering.values()) if n_interfering else 0


def _chain_str(tr):
    return "; ".join(f"{e}:{s.particle.name}[{float(s.spin_projection):+g}]" for e, s in sorted(tr.states.items()))


def run_case(case, rec, ctx):
    from vmon.props.c01 import make_reaction
    from vmon.refmodel.closure import reaction_features
    from vmon.workloads import configs as C
    from vmon.workloads import reactions as R
    desc = dict(case["reaction"])
    if desc["kind"] == "synth":
        rng0 = np.random.default_rng([desc["seed"]])
        reaction = None
        for attempt in range(30):
            spec = R.synth_spec(rng0, n_final=desc["n_final"], formalism=desc["formalism"], max_spin2=desc["max_spin2"],
                                identical_scalars=desc["identical_scalars"], max_transitions=150, shuffle_names=desc["seed"] % 2 == 1)
            spec["l_max"] = 8
            reaction = R.build_synth(spec)
            if reaction is not None:
                break
        rname = f"synth:{desc['seed']}"
    else:
        reaction, rname = make_reaction(desc)
    if reaction is None:
        rec.note("synthetic_reaction_not_constructible")
        return
    rng = ctx["case_rng"] = np.random.default_rng([case["seed"]])
    cfg = mode_config(case["mode"], reaction, rng)
    rf = reaction_features(reaction)
    ctx["feats"] = {**rf, "couplings": cfg["couplings"], "dynamics": bool(cfg["dynamics"]), "mode": case["mode"]}
    ctx["label"] = f"{rname} [{C.config_key(cfg)}]"
    ctx["default_naming"] = not cfg.get("naming")
    ctx["judge"] = True
    ctx["interfering"] = 0
    _, b = C.build(reaction, cfg)
    try:
        b.formulate()
    finally:
        ctx["judge"] = False
    content = R.spin_content(reaction)
    max_j = max(float(p.spin) for p in list(reaction.initial_state.values()) + list(reaction.get_intermediate_particles()))
    rec.case((content, reaction.formalism, case["mode"]), max_j >= 0.5 and ctx["interfering"] >= 2, formalism=reaction.formalism,
             mode=case["mode"], n_final=rf["n_final"], n_topologies=rf["n_topologies"], kind=desc["kind"], max_spin=max_j)
    rec.sample(f"{desc['kind']}:{reaction.formalism}", {"reaction": R.reaction_summary(reaction), "config": C.config_key(cfg), "spin_content": content,
                                                      "chains": len(ctx["log"].records), "max_interfering_chains": ctx["interfering"]})


META = {
    "technique": "runtime contracts on formulate_isobar_wigner_d / formulate_isobar_cg_coefficients, a recording hook on the builder's per-chain method and a post-condition on formulate: every chain, amplitude, component and the intensity are compared numerically with an independent helicity-formula reference on the qrules transitions",
    "level_text": "For every model formulated by the workload (fixtures in both formalisms, synthetic reactions with spins up to 3 and up to four decay nodes, coefficient and helicity-coupling mode, naming flags, with and without Breit-Wigner dynamics) each formulated chain must equal +-(its coefficient symbols) x prod_nodes conj-D x CG x CG x lineshape at 4 random points, the multiset of formulated chains must equal the permutation closure of the transitions over identical final-state particles (exactly once), every A^topology[outer] must be the coherent sum of its chains, every I component |sum|^2, and the intensity the incoherent sum over outer projections. Chains that share a coefficient as parity partners (helicity formalism, default names) must have relative sign prod eta; mode 3 assigns the form-factor Breit-Wigner and the reference computes it with the node's own L.",
    "level_note": "Jacob-Wick convention with gamma=0 and 'helicity state = child with the smaller tuple of attached final-state ids' are taken from the documentation; unit signs per chain are left to C03.",
}
