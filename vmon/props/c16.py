"""C16 — cached unfolding equals doit() whatever the cache directory has seen.

History monitor at the client boundary of perform_cached_doit: scripted client processes
(vmon.props.c16_child) log call/return events; faults are injected at the process'
file-system boundary (kill at every write prefix, delays between open and dump, concurrent
clients released together).  The offline checker requires every completed call to return
the digest of expr.doit() and never to raise.
"""
from __future__ import annotations

import itertools
import json
import os
import shutil
import subprocess
import sys
import tempfile
import time
from pathlib import Path

import numpy as np

ID = "C16"
LEVEL = "fault_enumeration"
RULE = ("case = one history on one cache directory: (a) collision: every call order of a family of expressions that "
        "print identically (symbols differing in assumptions; classes differing in a non-SymPy attribute) under "
        "PYTHONHASHSEED unset / 0 / other, in one process or one process per call; (b) crash: a client SIGKILLed "
        "before open, after open, after each enumerated byte prefix of the payload, before close, before/after the "
        "rename, followed by a fresh client calling the same and another expression; (c) concurrency: 2-8 clients "
        "released together on an empty or half-written directory with a delay injected after open-for-write. "
        "distinct = (fault kind, crash-offset class | call order | interleaving class, hash-seed class); non-trivial "
        "iff the history contains a fault or a collision partner")
ASSUMPTIONS = ["crash = process kill at a write boundary with the prefix flushed (torn blocks inside the kernel not modelled)",
               "expected result digest computed independently by the checker with expr.doit()"]
FLOORS = {"quick": {"evaluations": 400, "distinct_nontrivial": 40, "hooks": ["history:collision", "history:crash", "history:concurrent", "history:foreign"]},
          "thorough": {"evaluations": 3000, "distinct_nontrivial": 120, "hooks": ["history:collision", "history:crash", "history:concurrent", "history:foreign"]}}
CASE_TIMEOUT = {"quick": 300, "thorough": 900}
VERIF = Path(__file__).resolve().parents[2]
SEEDS = ["unset", "0", "4242"]
CRASH_EXPRS = ["attr-width:PhaseSpaceFactor", "assume-kallen:real", "control:bw"]
FOREIGN = ["empty", "random_bytes", "old_format_bare_expression", "pair_for_other_expression", "triple", "pickled_none", "pickled_string",
           "text_file", "valid_pair_truncated_by_one"]
POINTS = ["before_open", "after_open", "after_write_before_close", "before_replace", "after_replace"]


def plan(tier, seed):
    from vmon.workloads.cache_exprs import families
    cases = []
    fam = families()
    for f, members in sorted(fam.items()):
        if f == "control":
            continue
        members = members[:3] if tier == "quick" else members[:4]
        perms = list(itertools.permutations(members, min(3, len(members))))
        if tier == "quick":
            perms = perms[:: max(1, len(perms) // 4)][:4]
        for order in perms:
            for hs in SEEDS:
                for mode in ("one_process", "process_per_call"):
                    if tier == "quick" and mode == "process_per_call" and hs == "4242":
                        continue
                    cases.append({"kind": "collision", "family": f, "order": list(order), "hashseed": hs, "mode": mode, "cost": 4.0})
    n_prefix = 24 if tier == "quick" else 200
    for eid in CRASH_EXPRS:
        for hs in (("unset", "0") if tier == "quick" else SEEDS):
            for pt in POINTS:
                cases.append({"kind": "crash", "expr": eid, "point": pt, "hashseed": hs, "cost": 4.0})
            for k in range(n_prefix):
                cases.append({"kind": "crash", "expr": eid, "point": "byte", "prefix_index": k, "n_prefix": n_prefix, "hashseed": hs, "cost": 4.0})
    for eid in CRASH_EXPRS:
        for content in FOREIGN:
            for hs in (("unset", "0") if tier == "quick" else SEEDS):
                cases.append({"kind": "foreign", "expr": eid, "content": content, "hashseed": hs, "cost": 4.0})
    rounds = 24 if tier == "quick" else 240
    for r in range(rounds):
        cases.append({"kind": "concurrent", "n_procs": [2, 3, 4, 8][r % 4] if tier != "quick" else [2, 3, 4][r % 3],
                      "prefill": ["empty", "half_written"][(r // 4) % 2], "delay": [0.02, 0.05, 0.1][r % 3],
                      "hashseed": SEEDS[r % 3], "round": r, "cost": 6.0})
    return cases


def setup_worker(rec, ctx):
    from vmon.workloads.cache_exprs import digest, registry
    ctx["reg"] = registry()
    ctx["expected"] = {}
    ctx["payload_size"] = {}
    ctx["digest"] = digest


def expected(ctx, eid):
    if eid not in ctx["expected"]:
        ctx["expected"][eid] = ctx["digest"](ctx["reg"][eid].doit())
    return ctx["expected"][eid]


def launch(workdir: Path, proc: str, cache: Path, ops, hashseed, fault=None, start_at=None):
    spec = {"dir": str(cache), "log": str(workdir / "history.jsonl"), "proc": proc, "ops": ops, "fault": fault, "start_at": start_at}
    sp_ = workdir / f"spec-{proc}.json"
    sp_.write_text(json.dumps(spec))
    env = dict(os.environ)
    env.pop("PYTHONHASHSEED", None)
    if hashseed != "unset":
        env["PYTHONHASHSEED"] = hashseed
    return subprocess.Popen([sys.executable, "-W", "ignore", "-m", "vmon.props.c16_child", str(sp_)], cwd=str(VERIF), env=env,
                            stdout=subprocess.DEVNULL, stderr=subprocess.PIPE)


def wait(p, timeout=120):
    try:
        _, err = p.communicate(timeout=timeout)
        return p.returncode, (err or b"").decode()[-500:]
    except subprocess.TimeoutExpired:
        p.kill()
        p.communicate()
        return "timeout", ""


def read_history(workdir: Path) -> list[dict]:
    f = workdir / "history.jsonl"
    if not f.exists():
        return []
    out = []
    for line in f.read_text().splitlines():
        try:
            out.append(json.loads(line))
        except json.JSONDecodeError:
            pass
    return out


def judge(rec, ctx, hist, feats, label):
    """Every completed call returns digest(expr.doit()); no call raises."""
    calls = {}
    n_completed = 0
    for ev in hist:
        if ev["type"] == "call":
            calls[ev["proc"], ev["op"]] = ev
        elif ev["type"] == "return":
            n_completed += 1
            eid = ev["expr"]
            if "exception" in ev:
                exc_type = ev["exception"].split(":")[0]
                rec.check(False, "raised", f"{label}: perform_cached_doit({eid}) raised {ev['exception'][:200]} (process {ev['proc']}, PYTHONHASHSEED={ev['hashseed']})",
                          {"history": _compact(hist)}, {**feats, "exception": exc_type})
            else:
                ok = ev["digest"] == expected(ctx, eid)
                other = [k for k, v in ctx["expected"].items() if v == ev["digest"] and k != eid]
                rec.check(ok, "wrong_result",
                          f"{label}: perform_cached_doit({eid}) returned something != expr.doit()" + (f" (it is the unfolding of {other[0]})" if other else "") +
                          f" (process {ev['proc']}, PYTHONHASHSEED={ev['hashseed']})", {"history": _compact(hist)}, feats)
    return n_completed


def _compact(hist):
    return [{k: v for k, v in ev.items() if k in ("type", "proc", "op", "expr", "exception", "where", "mode", "file")} for ev in hist if ev["type"] != "fs" or ev.get("op") != "open" or "w" in ev.get("mode", "")][:40]


def run_case(case, rec, ctx):
    rng = np.random.default_rng([ctx["seed"], 16, case["idx"]])
    work = Path(tempfile.mkdtemp(prefix="vmon-c16-"))
    cache = work / "cache"
    try:
        if case["kind"] == "collision":
            _collision(case, rec, ctx, work, cache)
        elif case["kind"] == "crash":
            _crash(case, rec, ctx, work, cache, rng)
        elif case["kind"] == "foreign":
            _foreign(case, rec, ctx, work, cache, rng)
        else:
            _concurrent(case, rec, ctx, work, cache, rng)
    finally:
        shutil.rmtree(work, ignore_errors=True)


def _hs_class(hs):
    return {"unset": "unset", "0": "zero"}.get(hs, "other")


def _collision(case, rec, ctx, work, cache):
    rec.hit("history:collision")
    order, hs = case["order"], case["hashseed"]
    feats = {"fault": "collision", "family": case["family"].split("-")[0], "hashseed": _hs_class(hs), "mode": case["mode"]}
    label = f"collision[{case['family']} order={order} seed={hs} {case['mode']}]"
    if case["mode"] == "one_process":
        rc, err = wait(launch(work, "p0", cache, order + order[::-1], hs))
        procs = [("p0", rc, err)]
    else:
        procs = []
        for i, eid in enumerate(order + order[::-1]):
            rc, err = wait(launch(work, f"p{i}", cache, [eid], hs))
            procs.append((f"p{i}", rc, err))
    hist = read_history(work)
    bad = [(p, rc, err) for p, rc, err in procs if rc != 0]
    if bad:
        rec.inconclusive_event("client process failed", bad[:2])
        return
    n = judge(rec, ctx, hist, feats, label)
    rec.case(("collision", case["family"], tuple(order), _hs_class(hs), case["mode"]), True, fault="collision", hashseed=_hs_class(hs), family=case["family"])
    rec.sample(f"collision:{case['family']}:{_hs_class(hs)}", {"order": order + order[::-1], "hashseed": hs, "mode": case["mode"], "completed_calls": n,
                                                              "cache_files": sorted(p.name[:24] for p in cache.glob("*"))})


def _payload_size(ctx, eid, hs):
    """Bytes the implementation writes for this expression (measured with a clean client)."""
    key = (eid, hs)
    if key not in ctx["payload_size"]:
        d = Path(tempfile.mkdtemp(prefix="vmon-c16-size-"))
        try:
            wait(launch(d, "probe", d / "cache", [eid], hs))
            ctx["payload_size"][key] = max((p.stat().st_size for p in (d / "cache").glob("*")), default=0)
        finally:
            shutil.rmtree(d, ignore_errors=True)
    return ctx["payload_size"][key]


def _crash(case, rec, ctx, work, cache, rng):
    rec.hit("history:crash")
    eid, hs, pt = case["expr"], case["hashseed"], case["point"]
    other = [e for e in CRASH_EXPRS if e != eid][case["idx"] % 2]
    if pt == "byte":
        size = _payload_size(ctx, eid, hs)
        if size <= 0:
            rec.inconclusive_event("could not measure payload size", eid)
            return
        n_prefix = case["n_prefix"]
        if size <= n_prefix:
            offsets = list(range(size))
        else:
            offsets = sorted({0, 1, 2, size - 2, size - 1} | {int(round(f * (size - 1))) for f in np.linspace(0, 1, n_prefix - 5)})
        k = case["prefix_index"]
        if k >= len(offsets):
            return
        off = offsets[k]
        fault = {"kill_at_byte": off}
        cls = "byte:0" if off == 0 else "byte:1" if off == 1 else "byte:last" if off == size - 1 else f"byte:decile{int(10 * off / size)}"
        where = f"byte {off}/{size}"
    else:
        fault = {"kill": pt}
        cls = pt
        where = pt
    feats = {"fault": "crash", "crash_point": cls.split(":")[0], "hashseed": _hs_class(hs)}
    label = f"crash[{eid} killed at {where}, seed={hs}]"
    rc, err = wait(launch(work, "victim", cache, [eid], hs, fault=fault))
    hist1 = read_history(work)
    killed = any(ev["type"] == "killed" for ev in hist1)
    if not killed:
        # the implementation never reached this crash point (e.g. no rename, or fewer bytes): nothing to observe
        rec.stratum("crash_point_not_reached", cls)
    left = sorted((p.name[-12:], p.stat().st_size) for p in cache.glob("*")) if cache.exists() else []
    # afterwards: fresh clients call the same and a different expression (and the same again: now cached)
    rc2, err2 = wait(launch(work, "after1", cache, [eid, other, eid], hs))
    rc3, err3 = wait(launch(work, "after2", cache, [other, eid], hs if hs != "unset" else "unset"))
    hist = read_history(work)
    if rc2 != 0 or rc3 != 0:
        rec.inconclusive_event("client process failed", [rc2, err2, rc3, err3])
        return
    n = judge(rec, ctx, hist, feats, label)
    rec.case(("crash", cls, _hs_class(hs)), killed, fault="crash", crash_point=cls, hashseed=_hs_class(hs))
    rec.sample(f"crash:{cls.split(':')[0]}", {"expr": eid, "killed_at": where, "killed": killed, "files_left_by_victim": left, "completed_calls_after": n, "hashseed": hs})


def _foreign(case, rec, ctx, work, cache, rng):
    """The cache file of the expression already exists with foreign / stale / damaged content."""
    import pickle
    rec.hit("history:foreign")
    eid, hs, content = case["expr"], case["hashseed"], case["content"]
    other = [e for e in CRASH_EXPRS if e != eid][0]
    wait(launch(work, "probe", cache, [eid], hs))
    files = sorted(cache.glob("*"))
    if not files:
        rec.inconclusive_event("probe wrote no cache file", eid)
        return
    reg = ctx["reg"]
    good = files[0].read_bytes()
    data = {
        "empty": b"",
        "random_bytes": rng.bytes(257),
        "old_format_bare_expression": pickle.dumps(reg[other].doit()),
        "pair_for_other_expression": pickle.dumps((reg[other], reg[other].doit())),
        "triple": pickle.dumps((reg[eid], reg[other].doit(), 1)),
        "pickled_none": pickle.dumps(None),
        "pickled_string": pickle.dumps("not an expression"),
        "text_file": b"this is not a pickle\n",
        "valid_pair_truncated_by_one": good[:-1],
    }[content]
    for f in files:
        f.write_bytes(data)
    (work / "history.jsonl").unlink()
    rc, err = wait(launch(work, "after", cache, [eid, other, eid], hs))
    if rc != 0:
        rec.inconclusive_event("client process failed", [rc, err])
        return
    feats = {"fault": "foreign_content", "content": content, "hashseed": _hs_class(hs)}
    n = judge(rec, ctx, read_history(work), feats, f"foreign[{eid}: cache file pre-filled with {content}, seed={hs}]")
    rec.case(("foreign", content, _hs_class(hs)), True, fault="foreign_content", content=content, hashseed=_hs_class(hs))
    rec.sample(f"foreign:{content}", {"expr": eid, "content": content, "bytes": len(data), "completed_calls": n, "hashseed": hs})


def _concurrent(case, rec, ctx, work, cache, rng):
    rec.hit("history:concurrent")
    hs = case["hashseed"]
    k = case["n_procs"]
    exprs = ["attr-width:PhaseSpaceFactor", "attr-width:PhaseSpaceFactorSWave", "control:bw"]
    cache.mkdir(parents=True, exist_ok=True)
    if case["prefill"] == "half_written":
        # a victim killed half way leaves whatever the implementation leaves
        size = _payload_size(ctx, exprs[0], hs)
        wait(launch(work, "victim", cache, [exprs[0]], hs, fault={"kill_at_byte": max(1, size // 2)}))
    start_at = time.time() + 2.5
    procs = []
    for i in range(k):
        ops = [exprs[(i + j) % (2 if i % 2 == 0 else 3)] for j in range(3)]
        ops[0] = exprs[0]  # everybody races for the same key first
        fault = {"delay_after_open": case["delay"]} if i % 2 == 0 else {"delay_after_read_open": case["delay"] / 2}
        procs.append(launch(work, f"c{i}", cache, ops, hs, fault=fault, start_at=start_at))
    results = [wait(p, 180) for p in procs]
    hist = read_history(work)
    if any(rc != 0 for rc, _ in results):
        rec.inconclusive_event("client process failed", results[:3])
        return
    # interleaving classification: did a call of one process overlap a write window of another?
    writes = []
    calls = []
    open_w = {}
    t_call = {}
    for ev in hist:
        if ev["type"] == "fs" and ev.get("op") == "open" and any(c in ev.get("mode", "") for c in "wax+"):
            open_w[ev["proc"]] = ev["t"]
        if ev["type"] == "call":
            t_call[ev["proc"], ev["op"]] = ev["t"]
        if ev["type"] == "return":
            calls.append((ev["proc"], t_call.get((ev["proc"], ev["op"]), ev["t"]), ev["t"]))
            if ev["proc"] in open_w:
                writes.append((ev["proc"], open_w.pop(ev["proc"]), ev["t"]))
    overlap = any(pw != pc and tc0 < tw1 and tw0 < tc1 for pw, tw0, tw1 in writes for pc, tc0, tc1 in calls)
    n_writers = len({p for p, *_ in writes})
    inter = "read_overlaps_write" if overlap else ("several_writers_no_overlap" if n_writers > 1 else "serial")
    feats = {"fault": "concurrency", "interleaving": inter, "prefill": case["prefill"], "hashseed": _hs_class(hs)}
    label = f"concurrent[{k} clients, prefill={case['prefill']}, delay={case['delay']}, seed={hs}, {inter}]"
    n = judge(rec, ctx, hist, feats, label)
    rec.case(("concurrent", inter, case["prefill"], k, _hs_class(hs)), overlap, fault="concurrency", interleaving=inter, n_clients=k, prefill=case["prefill"])
    rec.sample(f"concurrent:{inter}", {"clients": k, "prefill": case["prefill"], "delay": case["delay"], "writers": n_writers, "completed_calls": n, "hashseed": hs})


def teardown_worker(rec, ctx):
    pass


META = {
    "technique": "offline checker over recorded client histories of perform_cached_doit (call/return events from scripted processes) with fault injection at the process' file-system boundary: SIGKILL at every enumerated write prefix / open / close / rename, injected delays, concurrent clients, hash-seed sweep, str-identical expression families",
    "level_text": "Fault enumeration over three dimensions: (a) every call order (up to 3 members, forwards then backwards) of six families of expressions that print identically, under PYTHONHASHSEED unset / 0 / other, in one process and one process per call; (b) a client killed before open, after open, at 24 (quick) / 200 (thorough) byte prefixes of the payload incl. 0, 1, n-1, before close and around the rename, for three expressions, followed by two fresh clients; (c) 2-4 (thorough 8) clients released together on an empty or half-written directory with delays after open. Every completed call must return the digest of expr.doit() computed independently and must not raise; the evidence counts histories in which a read actually overlapped another client's write window. Collision families: equal str, equal Python hash (Integer(-1)/Integer(-2)), and the same bound method of two configured objects.",
    "level_note": "Crash = process kill with the written prefix flushed; kernel-level torn writes and power loss are not modelled. Byte prefixes are enumerated exhaustively only for payloads shorter than the prefix budget.",
}
