"""C08 — boost and rotation expressions are proper Lorentz transformations.

Monitors judge the arrays produced by ``doit()`` + ``sympy.lambdify`` (ampform's own
NumPy printers) for every Lorentz class and for einsum products of them, on momenta
spanning beta*gamma from 1e-6 to 1e6, all direction classes, several batch sizes, with
and without cse.
"""
from __future__ import annotations

import itertools

import numpy as np

ID = "C08"
LEVEL = "exploration"
RULE = ("case = (check family, decade of beta*gamma or angle class, direction class, batch size, cse); "
        "momenta drawn log-uniformly in beta*gamma and mass; distinct = that tuple; non-trivial iff "
        "beta*gamma > 1e-3 and the direction is not axis-aligned (boosts) or the angle is not a multiple "
        "of pi/2 (rotations)")
ASSUMPTIONS = ["numpy linear algebra as reference", "tolerance proportional to gamma^2 * machine epsilon"]
FLOORS = {"quick": {"evaluations": 2000, "distinct_nontrivial": 40,
                    "hooks": ["lambdify:BoostMatrix", "lambdify:RotationYMatrix", "lambdify:MatrixMultiplication"]},
          "thorough": {"evaluations": 20000, "distinct_nontrivial": 150,
                       "hooks": ["lambdify:BoostMatrix", "lambdify:RotationYMatrix", "lambdify:MatrixMultiplication"]}}
CASE_TIMEOUT = {"quick": 120, "thorough": 300}

class GeneratedCodeError(Exception):
    def __init__(self, name, cse, msg):
        super().__init__(f"{name} (cse={cse}): {msg}")
        self.name, self.cse, self.msg = name, cse, msg


ETA = np.diag([1.0, -1.0, -1.0, -1.0])
EPS = np.finfo(float).eps
DIRS = ["random", "x", "y", "z", "-z", "xy-plane", "xz-plane", "near-z"]
ANGLES = ["random", "zero", "pi", "-pi", "pi/2", "3pi/2", ">2pi", "tiny"]
BATCH = [1, 2, 7, 1000]


def plan(tier: str, seed: int) -> list[dict]:
    decades = list(range(-6, 5)) if tier == "quick" else list(range(-6, 7))
    cases = []
    reps = 1 if tier == "quick" else 60
    for rep in range(reps):
        for fam in ("boost", "boostz", "chain"):
            for dec, d in itertools.product(decades, DIRS):
                if fam == "boostz" and d not in ("z", "-z"):
                    continue
                if fam == "chain" and d in ("z", "-z", "near-z"):
                    continue  # polar-angle conditioning on the z axis belongs to C07
                for cse in (True, False):
                    b = BATCH[(dec + DIRS.index(d) + rep + (1 if cse else 0)) % len(BATCH)]
                    cases.append({"family": fam, "decade": dec, "dir": d, "batch": b, "cse": cse, "rep": rep,
                                  "cost": 0.3})
        for fam in ("rotation", "compose"):
            for a in ANGLES:
                for cse in (True, False):
                    for b in (BATCH if fam == "rotation" else [1, 7]):
                        cases.append({"family": fam, "angle": a, "batch": b, "cse": cse, "rep": rep, "cost": 0.2})
        cases.append({"family": "rest", "batch": 3, "cse": True, "rep": rep, "cost": 0.2})
        cases.append({"family": "rest", "batch": 1, "cse": False, "rep": rep, "cost": 0.2})
        cases.append({"family": "explicit_history", "batch": 1, "cse": True, "rep": rep, "cost": 0.3})
    return cases


# ---------------------------------------------------------------------------------------
def setup_worker(rec, ctx) -> None:
    import sympy as sp
    from ampform.kinematics import lorentz as L
    from ampform.sympy._array_expressions import ArrayMultiplication, MatrixMultiplication

    p = L.FourMomentumSymbol("p", shape=[])
    b, a, a2 = sp.symbols("b a a2", real=True)
    n = L.ArraySize(p)
    F: dict = {}

    def guarded(name, cse, build):
        """Code generation and execution of generated code are the system under test: an exception there is
        an observation about ampform (violation ``generated_code_raises``), not a harness failure."""
        try:
            f = build()
        except Exception as exc:  # noqa: BLE001
            f, err = None, f"lambdify failed: {type(exc).__name__}: {exc}"

        def call(*a):
            if f is None:
                raise GeneratedCodeError(name, cse, err)
            try:
                with np.errstate(all="ignore"):
                    return f(*a)
            except Exception as exc:  # noqa: BLE001
                raise GeneratedCodeError(name, cse, f"{type(exc).__name__}: {exc}") from exc
        return call

    def lam(name, args, expr):
        for cse in (True, False):
            F[name, cse] = guarded(name, cse, lambda cse=cse: sp.lambdify(args, expr.doit(), cse=cse))
        rec.hit(f"lambdify:{name.split('|')[0]}")

    lam("BoostMatrix", [p], L.BoostMatrix(p))
    lam("BoostMatrix|neg", [p], L.BoostMatrix(L.NegativeMomentum(p)))
    lam("MatrixMultiplication|inv", [p], MatrixMultiplication(L.BoostMatrix(L.NegativeMomentum(p)), L.BoostMatrix(p)))
    lam("ArrayMultiplication|self", [p], ArrayMultiplication(L.BoostMatrix(p), p))
    lam("NegativeMomentum", [p], L.NegativeMomentum(p))
    lam("MinkowskiMetric", [p], L.MinkowskiMetric(p))
    lam("BoostZMatrix", [b, p], L.BoostZMatrix(b, n))
    lam("ArrayMultiplication|bz", [b, p], ArrayMultiplication(L.BoostZMatrix(b, n), p))
    lam("RotationYMatrix", [a, p], L.RotationYMatrix(a, n))
    lam("RotationZMatrix", [a, p], L.RotationZMatrix(a, n))
    lam("MatrixMultiplication|yy", [a, a2, p], MatrixMultiplication(L.RotationYMatrix(a, n), L.RotationYMatrix(a2, n)))
    lam("MatrixMultiplication|zz", [a, a2, p], MatrixMultiplication(L.RotationZMatrix(a, n), L.RotationZMatrix(a2, n)))
    # products with a repeated factor
    lam("MatrixMultiplication|yy_same", [a, p], MatrixMultiplication(L.RotationYMatrix(a, n), L.RotationYMatrix(a, n)))
    lam("MatrixMultiplication|zyz_same", [a, a2, p], MatrixMultiplication(L.RotationZMatrix(a, n), L.RotationYMatrix(a2, n), L.RotationZMatrix(a, n)))
    lam("ArrayMultiplication|rrr", [a, p], ArrayMultiplication(L.RotationZMatrix(a, n), L.RotationZMatrix(a, n), L.RotationZMatrix(a, n), p))
    lam("MatrixMultiplication|bb", [p], MatrixMultiplication(L.BoostMatrix(p), L.BoostMatrix(p)))
    lam("MatrixMultiplication|zyz", [a, a2, p],
        MatrixMultiplication(L.RotationZMatrix(a, n), L.RotationYMatrix(a2, n), L.RotationZMatrix(-a, n)))
    # helicity-frame chain exactly as compute_helicity_angles builds it
    from ampform.kinematics.angles import Phi, Theta
    beta = L.three_momentum_norm(p) / L.Energy(p)
    lam("ArrayMultiplication|chain", [p], ArrayMultiplication(
        L.BoostZMatrix(beta, n), L.RotationYMatrix(-Theta(p), n), L.RotationZMatrix(-Phi(p), n), p))
    # composite momenta p1+p2 (how HelicityAdapter / compute_helicity_angles feed sub-system momenta)
    from ampform.sympy._array_expressions import ArraySum
    p1 = L.FourMomentumSymbol("p1", shape=[]); p2 = L.FourMomentumSymbol("p2", shape=[])
    ps = ArraySum(p1, p2)
    lam("NegativeMomentum|sum", [p1, p2], L.NegativeMomentum(ps))
    lam("BoostMatrix|sum", [p1, p2], L.BoostMatrix(ps))
    lam("BoostMatrix|negsum", [p1, p2], L.BoostMatrix(L.NegativeMomentum(ps)))
    lam("ArrayMultiplication|sum", [p1, p2], ArrayMultiplication(L.BoostMatrix(ps), p1))
    lam("ArrayMultiplication|negsum", [p1, p2], ArrayMultiplication(L.BoostMatrix(L.NegativeMomentum(ps)), L.NegativeMomentum(ps)))
    # the space-inverted momentum of an already *boosted* momentum q = B(p1+p2) p1
    qb = ArrayMultiplication(L.BoostMatrix(ps), p1)
    lam("ArrayMultiplication|q", [p1, p2], qb)
    lam("NegativeMomentum|boosted", [p1, p2], L.NegativeMomentum(qb))
    lam("MatrixMultiplication|inv_boosted", [p1, p2], MatrixMultiplication(L.BoostMatrix(L.NegativeMomentum(qb)), L.BoostMatrix(qb)))
    # explicit symbolic matrices (the library's own as_explicit)
    def lam_explicit(name, args, mat):
        mat = mat.doit()
        for cse in (True, False):
            F[name, cse] = guarded(name, cse, lambda cse=cse: sp.lambdify(args, mat, cse=cse))
    E_, px_, py_, pz_ = sp.symbols("E px py pz", real=True)
    comp = {L.Energy(p): E_, L.FourMomentumX(p): px_, L.FourMomentumY(p): py_, L.FourMomentumZ(p): pz_,
            L.EuclideanNormSquared(L.ThreeMomentum(p)): px_**2 + py_**2 + pz_**2}
    explicit_boost = L.BoostMatrix(p).as_explicit().xreplace(comp)
    if explicit_boost.has(p):
        rec.inconclusive_event("explicit BoostMatrix still contains the array symbol", str(explicit_boost.free_symbols))
    lam_explicit("explicit|BoostMatrix", [E_, px_, py_, pz_], explicit_boost)
    lam_explicit("explicit|BoostZMatrix", [b], L.BoostZMatrix(b, n).as_explicit())
    lam_explicit("explicit|RotationYMatrix", [a], L.RotationYMatrix(a, n).as_explicit())
    lam_explicit("explicit|RotationZMatrix", [a], L.RotationZMatrix(a, n).as_explicit())
    ctx["F"] = F


def _direction(kind: str, n: int, rng) -> np.ndarray:
    if kind == "random":
        v = rng.normal(size=(n, 3))
    elif kind in ("x", "y", "z", "-z"):
        v = np.zeros((n, 3))
        v[:, {"x": 0, "y": 1, "z": 2, "-z": 2}[kind]] = -1.0 if kind == "-z" else 1.0
    elif kind == "xy-plane":
        v = rng.normal(size=(n, 3)); v[:, 2] = 0
    elif kind == "xz-plane":
        v = rng.normal(size=(n, 3)); v[:, 1] = 0
    elif kind == "near-z":
        v = rng.normal(size=(n, 3)) * 1e-7; v[:, 2] = 1.0
    else:
        raise ValueError(kind)
    return v / np.linalg.norm(v, axis=1)[:, None]


def _momenta(case, rng):
    n = case["batch"]
    bg = 10.0 ** (case["decade"] + rng.uniform(0, 1, n))
    m = 10.0 ** rng.uniform(-3, 3, n)
    d = _direction(case["dir"], n, rng)
    pv = (m * bg)[:, None] * d
    E = m * np.sqrt(1 + bg ** 2)
    return np.concatenate([E[:, None], pv], 1), m, bg


def _angles(kind: str, n: int, rng) -> np.ndarray:
    if kind == "random":
        return rng.uniform(-np.pi, np.pi, n)
    if kind == "tiny":
        return rng.uniform(-1e-8, 1e-8, n)
    if kind == ">2pi":
        return rng.uniform(2 * np.pi, 50, n)
    return np.full(n, {"zero": 0.0, "pi": np.pi, "-pi": -np.pi, "pi/2": np.pi / 2, "3pi/2": 1.5 * np.pi}[kind])


def _mat(x, n):
    x = np.asarray(x, dtype=float)
    if x.ndim == 2:
        x = np.broadcast_to(x, (n, 4, 4))
    return x


def _explicit(f, args_per_event, n):
    """Evaluate an explicit (4x4 sympy Matrix) lambdified function event by event."""
    out = np.empty((n, 4, 4))
    for i in range(n):
        out[i] = np.asarray(f(*[a[i:i + 1] if np.ndim(a) == 2 else a[i] for a in args_per_event]),
                            dtype=float).reshape(4, 4)
    return out


def _lorentz_checks(rec, name, Lm, gamma, feats, w):
    n = len(Lm)
    tol = 64 * EPS * np.maximum(gamma, 1.0) ** 2
    fin = np.isfinite(Lm).all(axis=(1, 2))
    rec.check(bool(fin.all()), "non_finite", f"{name}: non-finite matrix elements", w, feats)
    if not fin.all():
        return
    d = np.abs(np.einsum("nji,jk,nkl->nil", Lm, ETA, Lm) - ETA).max(axis=(1, 2))
    rec.check(bool((d <= tol).all()), "not_lorentz", f"{name}: L^T eta L != eta (max dev {d.max():.3g}, tol {tol.max():.3g})",
              {**w, "dev": d.max()}, feats)
    det = np.linalg.det(Lm)
    rec.check(bool((np.abs(det - 1) <= 16 * tol).all()), "det", f"{name}: det != +1 ({det[np.argmax(np.abs(det - 1))]:.6g})", w, feats)
    rec.check(bool((Lm[:, 0, 0] >= 1 - 4 * EPS).all()), "orthochronous", f"{name}: L00 < 1", w, feats)


def run_case(case, rec, ctx) -> None:
    try:
        _run_case(case, rec, ctx)
    except GeneratedCodeError as exc:
        rec.check(False, "generated_code_raises", f"generated NumPy code raised: {exc}",
                  {"case": {k: v for k, v in case.items() if k != "cost"}},
                  {"family": case["family"], "zero_three_momentum": case["family"] == "rest"})


def _run_case(case, rec, ctx) -> None:
    F = ctx["F"]
    rng = np.random.default_rng([ctx["seed"], 8, case["idx"]])
    cse = case["cse"]
    fam = case["family"]
    n = case["batch"]
    if fam in ("boost", "boostz", "chain"):
        p, m, bg = _momenta(case, rng)
        gamma = np.sqrt(1 + bg ** 2)
        feats = {"family": fam, "dir": case["dir"], "zero_three_momentum": False}
        w = {"p": p[:3], "m": m[:3], "beta_gamma": bg[:3], "cse": cse, "batch": n}
        nontrivial = case["decade"] >= -3 and case["dir"] in ("random", "xy-plane", "xz-plane", "near-z")
        rec.case(("boostfam", fam, case["decade"], case["dir"], n, cse), nontrivial,
                 bg_decade=case["decade"], direction=case["dir"], batch=n, cse=cse, family=fam)
        rec.sample(f"{fam}:{case['dir']}", {"p": p[0], "m": m[0], "beta_gamma": bg[0], "cse": cse, "batch": n})
        scale = (gamma ** 2)
        if fam == "boost":
            Lm = _mat(F["BoostMatrix", cse](p), n)
            _lorentz_checks(rec, "BoostMatrix", Lm, gamma, feats, w)
            if not np.isfinite(Lm).all():
                return
            rec.check(bool(np.abs(Lm - np.swapaxes(Lm, 1, 2)).max() <= 0), "boost_not_symmetric",
                      "BoostMatrix: pure boost must be a symmetric matrix", w, feats)
            rest = np.einsum("nij,nj->ni", Lm, p)
            ok = (np.abs(rest[:, 0] - m) <= 64 * EPS * gamma ** 2 * m) & \
                 (np.abs(rest[:, 1:]).max(axis=1) <= 64 * EPS * gamma ** 2 * m)
            rec.check(bool(ok.all()), "rest_frame", f"BoostMatrix(p) p != (m,0,0,0): {rest[np.argmin(ok)]} vs m={m[np.argmin(ok)]}", w, feats)
            rest2 = np.asarray(F["ArrayMultiplication|self", cse](p), dtype=float).reshape(n, 4)
            rec.check(bool((np.abs(rest2 - rest) <= 64 * EPS * (gamma ** 2 * m)[:, None]).all()), "array_multiplication",
                      "ArrayMultiplication(BoostMatrix(p), p) differs from matrix-vector product", w, feats)
            bb = _mat(F["MatrixMultiplication|bb", cse](p), n)
            rec.check(bool((np.abs(bb - np.einsum("nij,njk->nik", Lm, Lm)).max(axis=(1, 2)) <= 64 * EPS * gamma ** 4).all()), "matrix_multiplication",
                      "MatrixMultiplication(BoostMatrix(p), BoostMatrix(p)) differs from the square of the boost matrix", w, feats)
            inv = _mat(F["MatrixMultiplication|inv", cse](p), n)
            dev = np.abs(inv - np.eye(4)).max(axis=(1, 2))
            rec.check(bool((dev <= 256 * EPS * scale).all()), "inverse",
                      f"BoostMatrix(-p) BoostMatrix(p) != 1 (dev {dev.max():.3g})", w, feats)
            neg = _mat(F["BoostMatrix|neg", cse](p), n)
            # exact inverse of a Lorentz matrix is eta L^T eta (no numerical inversion: cond(L) ~ gamma^2)
            dev = np.abs(neg - np.einsum("ij,nkj,kl->nil", ETA, Lm, ETA)).max(axis=(1, 2))
            rec.check(bool((dev <= 64 * EPS * scale).all()), "inverse",
                      f"BoostMatrix(NegativeMomentum(p)) != eta BoostMatrix(p)^T eta (dev {dev.max():.3g})", w, feats)
            npm = np.asarray(F["NegativeMomentum", cse](p), dtype=float).reshape(n, 4)
            rec.check(bool(np.array_equal(npm, p * np.array([1, -1, -1, -1.0]))), "negative_momentum",
                      "NegativeMomentum(p) != (E,-px,-py,-pz)", w, feats)
            mm = _mat(F["MinkowskiMetric", cse](p), n)
            rec.check(bool(np.array_equal(mm, np.broadcast_to(ETA, (n, 4, 4)))), "metric", "MinkowskiMetric != diag(1,-1,-1,-1)", w, feats)
            ex = _explicit(F["explicit|BoostMatrix", cse], [p[:, 0], p[:, 1], p[:, 2], p[:, 3]], n)
            dev = np.abs(ex - Lm).max(axis=(1, 2))
            # the explicit form divides by beta^2: lose precision for tiny beta, compare where well conditioned
            # both forms compute gamma = 1/sqrt(1 - beta^2) (relative conditioning gamma^2) in a different
            # operation order, so they may differ by ~eps*gamma^3 in absolute terms
            rec.check(bool((dev <= 64 * EPS * gamma ** 3).all()), "explicit_mismatch",
                      f"generated code != as_explicit() matrix (dev {dev.max():.3g})", w, feats)
            # composite momentum: split p into two parts and feed the symbolic sum
            frac = rng.uniform(0.1, 0.9, n)[:, None]
            kick = np.zeros((n, 4)); kick[:, 1:] = rng.normal(size=(n, 3)) * (0.3 * m)[:, None]
            q1 = p * frac + kick; q2 = p - q1
            psum = q1 + q2
            g2 = (psum[:, 0] / np.sqrt(np.abs(psum[:, 0] ** 2 - (psum[:, 1:] ** 2).sum(1))))
            nps = np.asarray(F["NegativeMomentum|sum", cse](q1, q2), dtype=float).reshape(n, 4)
            rec.check(bool(np.array_equal(nps, psum * np.array([1, -1, -1, -1.0]))), "negative_momentum",
                      "NegativeMomentum(p1+p2) != (E,-px,-py,-pz) of the summed momentum", w, feats)
            Ls = _mat(F["BoostMatrix|sum", cse](q1, q2), n)
            Lref = _mat(F["BoostMatrix", cse](psum), n)
            rec.check(bool(np.array_equal(Ls, Lref)), "composite_momentum",
                      f"BoostMatrix(p1+p2) differs from BoostMatrix evaluated on the summed array (dev {np.abs(Ls - Lref).max():.3g})", w, feats)
            Ln = _mat(F["BoostMatrix|negsum", cse](q1, q2), n)
            Lnref = _mat(F["BoostMatrix|neg", cse](psum), n)
            rec.check(bool(np.array_equal(Ln, Lnref)), "composite_momentum",
                      f"BoostMatrix(NegativeMomentum(p1+p2)) differs from BoostMatrix(NegativeMomentum(.)) on the summed array (dev {np.abs(Ln - Lnref).max():.3g})", w, feats)
            _lorentz_checks(rec, "BoostMatrix(NegativeMomentum(p1+p2))", Ln, g2, feats, w)
            r1 = np.asarray(F["ArrayMultiplication|sum", cse](q1, q2), dtype=float).reshape(n, 4)
            rec.check(bool((np.abs(r1 - np.einsum("nij,nj->ni", Lref, q1)) <= 64 * EPS * (g2 ** 2 * np.abs(q1).max(1))[:, None]).all()),
                      "array_multiplication", "ArrayMultiplication(BoostMatrix(p1+p2), p1) differs from matrix-vector product", w, feats)
            r2 = np.asarray(F["ArrayMultiplication|negsum", cse](q1, q2), dtype=float).reshape(n, 4)
            ms = np.sqrt(np.abs(psum[:, 0] ** 2 - (psum[:, 1:] ** 2).sum(1)))
            ok = (np.abs(r2[:, 0] - ms) <= 256 * EPS * g2 ** 2 * ms) & (np.abs(r2[:, 1:]).max(axis=1) <= 256 * EPS * g2 ** 2 * ms)
            rec.check(bool(ok.all()), "rest_frame", "BoostMatrix(-P) applied to -P (P = p1+p2) is not (m,0,0,0)", w, feats)
            # q = B(p1+p2) p1 (a momentum expressed in the rest frame of the pair): NegativeMomentum(q) and its boost
            q1t = q1.copy()
            q1t[:, 0] = np.sqrt(np.maximum((0.5 * m) ** 2 + (q1[:, 1:] ** 2).sum(1), 0))   # time-like p1
            q2t = psum - q1t
            good = (q2t[:, 0] ** 2 - (q2t[:, 1:] ** 2).sum(1) > 0) & (q2t[:, 0] > 0)
            if good.any():
                q1t, q2t, g2 = q1t[good], q2t[good], g2[good]
                n = int(good.sum())
                qn = np.asarray(F["ArrayMultiplication|q", cse](q1t, q2t), dtype=float).reshape(n, 4)
                nq = np.asarray(F["NegativeMomentum|boosted", cse](q1t, q2t), dtype=float).reshape(n, 4)
                tq = 64 * EPS * np.abs(qn).max(axis=1)[:, None] + 1e-300
                rec.check(bool((np.abs(nq - qn * np.array([1, -1, -1, -1.0])) <= tq).all()), "negative_momentum",
                          "NegativeMomentum of a boosted momentum B(p1+p2) p1 is not (E,-px,-py,-pz) of that momentum", w, feats)
                invb = _mat(F["MatrixMultiplication|inv_boosted", cse](q1t, q2t), n)
                gq = qn[:, 0] / np.sqrt(np.maximum(qn[:, 0] ** 2 - (qn[:, 1:] ** 2).sum(1), 1e-300))
                devq = np.abs(invb - np.eye(4)).max(axis=(1, 2))
                rec.check(bool((devq <= 1024 * EPS * gq ** 2 * g2 ** 2).all()), "inverse",
                          f"BoostMatrix(NegativeMomentum(q)) BoostMatrix(q) != 1 for a boosted momentum q = B(p1+p2) p1 (dev {devq.max():.3g})", w, feats)
        elif fam == "boostz":
            beta = p[:, 3] / p[:, 0]
            Bz = _mat(F["BoostZMatrix", cse](beta, p), n)
            _lorentz_checks(rec, "BoostZMatrix", Bz, gamma, feats, w)
            Lm = _mat(F["BoostMatrix", cse](p), n)
            dev = np.abs(Bz - Lm).max(axis=(1, 2))
            # gamma = 1/sqrt(1-beta^2) has relative conditioning gamma^2 in both formulas => abs tol ~ gamma^3
            rec.check(bool((dev <= 64 * EPS * gamma ** 3).all()), "z_boost_mismatch",
                      f"BoostZMatrix(pz/E) != BoostMatrix(p) for p || z (dev {dev.max():.3g})", w, feats)
            rest = np.asarray(F["ArrayMultiplication|bz", cse](beta, p), dtype=float).reshape(n, 4)
            ok = (np.abs(rest[:, 0] - m) <= 64 * EPS * gamma ** 2 * m) & (np.abs(rest[:, 1:]).max(axis=1) <= 64 * EPS * gamma ** 2 * m)
            rec.check(bool(ok.all()), "rest_frame", "BoostZMatrix(beta) p != (m,0,0,0)", w, feats)
            ex = _explicit(F["explicit|BoostZMatrix", cse], [beta], n)
            # both forms compute gamma = 1/sqrt(1 - beta^2) (relative conditioning gamma^2) in a different operation order: entries of
            # size gamma may differ by ~eps*gamma^3 (as for BoostMatrix above; 2 reports in 392 k evaluations with gamma^2)
            rec.check(bool((np.abs(ex - Bz).max(axis=(1, 2)) <= 64 * EPS * gamma ** 3).all()), "explicit_mismatch",
                      "BoostZMatrix code != as_explicit()", w, feats)
        else:  # helicity-frame chain Bz Ry(-theta) Rz(-phi) p = (m,0,0,0)
            rest = np.asarray(F["ArrayMultiplication|chain", cse](p), dtype=float).reshape(n, 4)
            # theta = acos(pz/|p|) is ill-conditioned near the z axis (C07 treats that stratum): 1/sin(theta) enters
            sint = np.linalg.norm(p[:, 1:3], axis=1) / np.linalg.norm(p[:, 1:], axis=1)
            t = 256 * EPS * gamma ** 2 * m * (1 + 1 / np.maximum(sint, 1e-300))
            ok = (np.abs(rest[:, 0] - m) <= t) & (np.abs(rest[:, 1:]).max(axis=1) <= t)
            rec.check(bool(ok.all()), "helicity_chain", f"Bz Ry(-theta) Rz(-phi) p != (m,0,0,0): {rest[np.argmin(ok)]}, m={m[np.argmin(ok)]}", w, feats)
        return
    if fam == "explicit_history":
        # as_explicit() hands out a (mutable) SymPy matrix: a caller that edits its copy must not change what the next
        # caller gets for an equal expression
        import sympy as sp
        from ampform.kinematics import lorentz as L
        p_ = L.FourMomentumSymbol("p", shape=[])
        ang_, b_ = sp.symbols("a b", real=True)
        n_ = L.ArraySize(p_)
        makers = {"BoostMatrix": lambda: L.BoostMatrix(p_), "BoostZMatrix": lambda: L.BoostZMatrix(b_, n_),
                  "RotationYMatrix": lambda: L.RotationYMatrix(ang_, n_), "RotationZMatrix": lambda: L.RotationZMatrix(ang_, n_)}
        rec.case(("explicit_history",), False, family="explicit_history")
        for name, make in makers.items():
            first = make().as_explicit()
            pristine = sp.ImmutableDenseMatrix(first)
            mutated = False
            try:
                first[0, 1] = 99
                first[1, 1] = -first[1, 1]
                mutated = True
            except TypeError:
                pass   # immutable result: nothing a caller could spoil
            second = make().as_explicit()
            rec.evaluation()
            rec.check(sp.ImmutableDenseMatrix(second) == pristine, "explicit_shared_state",
                      f"{name}.as_explicit() returns a different matrix after an earlier caller edited the matrix it had received (element [0,1] = {second[0, 1]})",
                      {"mutated": mutated}, {"family": "explicit_history", "zero_three_momentum": False})
        return
    if fam == "rest":
        m = 10.0 ** rng.uniform(-3, 3, n)
        p = np.zeros((n, 4)); p[:, 0] = m
        feats = {"family": "rest", "zero_three_momentum": True}
        w = {"p": p, "cse": cse}
        rec.case(("rest", n, cse), False, family="rest")
        rec.sample("rest", w)
        Lm = _mat(F["BoostMatrix", cse](p), n)
        ok = bool(np.isfinite(Lm).all() and np.abs(Lm - np.eye(4)).max() <= 4 * EPS)
        rec.check(ok, "rest_boost", "BoostMatrix of a momentum exactly at rest is not the identity (NaN from 0/0)", w, feats)
        return
    # rotations
    ang = _angles(case["angle"], n, rng)
    ang2 = _angles("random", n, rng)
    p = np.zeros((n, 4)); p[:, 0] = 1.0
    feats = {"family": fam, "angle": case["angle"]}
    w = {"angle": ang[:3], "angle2": ang2[:3], "cse": cse, "batch": n}
    rec.case(("rot", fam, case["angle"], n, cse), case["angle"] in ("random", ">2pi", "tiny"),
             angle=case["angle"], batch=n, cse=cse, family=fam)
    rec.sample(f"{fam}:{case['angle']}", w)
    one = np.ones(n)
    tol = 16 * EPS * np.maximum(1.0, np.abs(ang))
    c, s = np.cos(ang), np.sin(ang)
    z = np.zeros(n)
    ref = {
        "RotationYMatrix": np.array([[one, z, z, z], [z, c, z, s], [z, z, one, z], [z, -s, z, c]]).transpose(2, 0, 1),
        "RotationZMatrix": np.array([[one, z, z, z], [z, c, -s, z], [z, s, c, z], [z, z, z, one]]).transpose(2, 0, 1),
    }
    if fam == "rotation":
        for name in ("RotationYMatrix", "RotationZMatrix"):
            R = _mat(F[name, cse](ang, p), n)
            _lorentz_checks(rec, name, R, one, feats, w)
            rec.check(bool((np.abs(R - ref[name]).max(axis=(1, 2)) <= tol).all()), "rotation_matrix",
                      f"{name} differs from the textbook active rotation", w, feats)
            ex = _explicit(F[f"explicit|{name}", cse], [ang], n)
            rec.check(bool((np.abs(ex - R).max(axis=(1, 2)) <= tol).all()), "explicit_mismatch", f"{name} code != as_explicit()", w, feats)
            rec.check(bool(np.array_equal(R[:, 0, :], np.broadcast_to([1.0, 0, 0, 0], (n, 4))) and np.array_equal(R[:, :, 0], np.broadcast_to([1.0, 0, 0, 0], (n, 4)))),
                      "rotation_time_mixing", f"{name} mixes time and space", w, feats)
    else:
        for key, name in (("MatrixMultiplication|yy", "RotationYMatrix"), ("MatrixMultiplication|zz", "RotationZMatrix")):
            prod = _mat(F[key, cse](ang, ang2, p), n)
            direct = _mat(F[name, cse](ang + ang2, p), n)
            t = 32 * EPS * np.maximum(1.0, np.abs(ang) + np.abs(ang2))
            rec.check(bool((np.abs(prod - direct).max(axis=(1, 2)) <= t).all()), "composition",
                      f"{name}(a) {name}(b) != {name}(a+b)", w, feats)
            ry = _mat(F[name, cse](ang, p), n); ry2 = _mat(F[name, cse](ang2, p), n)
            rec.check(bool((np.abs(prod - np.einsum("nij,njk->nik", ry, ry2)).max(axis=(1, 2)) <= t).all()), "matrix_multiplication",
                      "MatrixMultiplication einsum differs from the matrix product", w, feats)
        # repeated factors: R(a) R(a) = R(2a), Rz(a) Ry(b) Rz(a), Rz(a)^3 p
        t2 = 64 * EPS * np.maximum(1.0, 2 * np.abs(ang) + np.abs(ang2))
        yy = _mat(F["MatrixMultiplication|yy_same", cse](ang, p), n)
        rec.check(bool((np.abs(yy - _mat(F["RotationYMatrix", cse](2 * ang, p), n)).max(axis=(1, 2)) <= t2).all()), "composition",
                  "RotationYMatrix(a) RotationYMatrix(a) (the same factor twice) != RotationYMatrix(2a)", w, feats)
        rz_ = _mat(F["RotationZMatrix", cse](ang, p), n); ry_ = _mat(F["RotationYMatrix", cse](ang2, p), n)
        zyz = _mat(F["MatrixMultiplication|zyz_same", cse](ang, ang2, p), n)
        rec.check(bool((np.abs(zyz - np.einsum("nij,njk,nkl->nil", rz_, ry_, rz_)).max(axis=(1, 2)) <= t2).all()), "matrix_multiplication",
                  "MatrixMultiplication(Rz(a), Ry(b), Rz(a)) (a factor occurring twice) differs from the ordered matrix product", w, feats)
        pv_ = np.tile(np.array([1.3, 0.2, -0.4, 0.7]), (n, 1))
        rrr = np.asarray(F["ArrayMultiplication|rrr", cse](ang, pv_), dtype=float).reshape(n, 4)
        rz3 = _mat(F["RotationZMatrix", cse](3 * ang, pv_), n)
        rec.check(bool((np.abs(rrr - np.einsum("nij,nj->ni", rz3, pv_)).max(axis=1) <= 4 * t2).all()), "array_multiplication",
                  "ArrayMultiplication(Rz(a), Rz(a), Rz(a), p) != Rz(3a) p", w, feats)
        # non-commuting triple product: catches transposed einsum subscripts
        prod = _mat(F["MatrixMultiplication|zyz", cse](ang, ang2, p), n)
        rz = _mat(F["RotationZMatrix", cse](ang, p), n); ry = _mat(F["RotationYMatrix", cse](ang2, p), n)
        rzm = _mat(F["RotationZMatrix", cse](-ang, p), n)
        refp = np.einsum("nij,njk,nkl->nil", rz, ry, rzm)
        t = 64 * EPS * np.maximum(1.0, np.abs(ang) + np.abs(ang2))
        rec.check(bool((np.abs(prod - refp).max(axis=(1, 2)) <= t).all()), "matrix_multiplication",
                  "MatrixMultiplication(Rz(a),Ry(b),Rz(-a)) differs from the ordered matrix product", w, feats)

META = {
    "technique": "runtime contracts on lambdified boost/rotation arrays (Lorentz-group invariants, numpy reference) over stress-generated momenta",
    "level_text": "Every array that ampform's own NumPy printers generate for BoostMatrix, BoostZMatrix, RotationY/ZMatrix, NegativeMomentum, MinkowskiMetric and einsum products of them is judged against the Lorentz-group identities of the statement on momenta spanning 1e-6..1e6 in beta*gamma, all direction classes, four batch sizes and cse on/off; held means no observed execution violated them. Sampling, not proof. Also judged: composite momenta p1+p2, NegativeMomentum and inverse boost of an already boosted momentum, products with repeated factors, as_explicit() after a caller edited the matrix it received; an exception raised by generated code is a violation.",
    "level_note": "Trusts numpy linear algebra; tolerances scale with the conditioning of the documented formulas (gamma^2..gamma^3 * eps). Momenta beyond beta*gamma 1e6 and non-time-like inputs are not explored.",
}
