"""C09 — K-matrix amplitudes are unitary and symmetric for real parameters."""
from __future__ import annotations

import itertools

import numpy as np

ID = "C09"
LEVEL = "exploration"
RULE = ("case = (class, n_channels, n_poles, L, phase-space factor, parameter-set id); each case draws one real "
        "parameter set and 16 s-values above all thresholds and >= 0.02 away from every pole; post-condition on "
        "the formulate() classmethods evaluates the returned matrix (interpreter; lambdified doit() as second "
        "route for <= 2 channels); distinct = (class, n_channels, n_poles, L, phsp); non-trivial iff "
        "n_channels*n_poles >= 2 and max|T| > 1e-3")
ASSUMPTIONS = ["numpy linear algebra as reference", "tolerance scales with max|T|^2 and the distance to the nearest pole"]
FLOORS = {"quick": {"evaluations": 120, "distinct_nontrivial": 20,
                    "hooks": ["RelativisticKMatrix.formulate", "NonRelativisticKMatrix.formulate"]},
          "thorough": {"evaluations": 800, "distinct_nontrivial": 50,
                       "hooks": ["RelativisticKMatrix.formulate", "NonRelativisticKMatrix.formulate"]}}
CASE_TIMEOUT = {"quick": 300, "thorough": 1500}
WALL_BUDGET = {"quick": 900, "thorough": 7200}
REAL_PHSP = ["PhaseSpaceFactor", "PhaseSpaceFactorAbs", "PhaseSpaceFactorComplex"]


def plan(tier, seed):
    cases = []
    if tier == "quick":
        grid = [(c, p) for c in (1, 2) for p in (1, 2, 3)]
        Ls, reps = (0, 1, 2), 2
    else:
        grid = [(c, p) for c in (1, 2) for p in (1, 2, 3, 4)] + [(3, 1), (3, 2), (3, 3)]
        Ls, reps = (0, 1, 2, 3, 4), 6
    for (c, p), rep in itertools.product(grid, range(reps)):
        cases.append({"cls": "NonRelativisticKMatrix", "n_ch": c, "n_poles": p, "L": 0, "phsp": None, "rep": rep,
                      "cost": 1 + (30 if c == 3 else 0)})
        for L in Ls:
            ph = REAL_PHSP[(L + rep + c + p) % 3]
            cases.append({"cls": "RelativisticKMatrix", "n_ch": c, "n_poles": p, "L": L, "phsp": ph, "rep": rep,
                          "cost": 2 + (40 if c == 3 else 0)})
    # poles below a channel threshold (closed channel at the pole mass): the phase-space factor given to
    # formulate() must be the one that normalises the energy-dependent widths
    for (c, p), rep in itertools.product(grid, range(reps)):
        for L in Ls:
            ph = "PhaseSpaceFactorAbs" if (L + rep) % 2 == 0 else REAL_PHSP[(rep + c + p) % 3]
            cases.append({"cls": "RelativisticKMatrix", "n_ch": c, "n_poles": p, "L": L, "phsp": ph, "rep": rep, "sub": True,
                          "cost": 2 + (40 if c == 3 else 0)})
            if L % 2 == 0:
                cases.append({"cls": "RelativisticKMatrix", "n_ch": c, "n_poles": p, "L": L, "phsp": "PhaseSpaceFactorAbs", "rep": rep, "sub": "pseudo",
                              "cost": 2 + (40 if c == 3 else 0)})
    if tier == "quick":
        # one relativistic 3-channel case (the symbolic 3x3 inverse costs ~30 s): (1 - i rho K-hat) is not symmetric there
        cases.append({"cls": "RelativisticKMatrix", "n_ch": 3, "n_poles": 1, "L": 0, "phsp": "PhaseSpaceFactor", "rep": 0, "cost": 45})
        cases.append({"cls": "NonRelativisticKMatrix", "n_ch": 3, "n_poles": 2, "L": 0, "phsp": None, "rep": 0, "cost": 35})
    # call histories in one process (matrix templates are cached per n_channels)
    for c in (1, 2):
        for k, seq in enumerate([[1, 2, 1], [2, 1, 3], [3, 1]]):
            cases.append({"cls": "history", "klass": "NonRelativisticKMatrix", "n_ch": c, "n_poles": 0, "L": 0, "rep": k, "seq": seq, "cost": 2 * len(seq)})
            cases.append({"cls": "history", "klass": "RelativisticKMatrix", "n_ch": c, "n_poles": 0, "L": 0, "rep": k, "seq": seq, "cost": 4 * len(seq)})
    if tier == "quick":
        cases = [c for c in cases if not (c["n_ch"] == 2 and c["n_poles"] == 3 and c["L"] == 2 and c["rep"] == 1)]
    return cases


def setup_worker(rec, ctx):
    from ampform.dynamics import kmatrix as K
    from vmon.core import attach

    ctx["K"] = K

    def make_ensure(cls_name):
        def ensure(old, result, cls, n_channels, n_poles, parametrize=True, **kw):
            if not parametrize or kw.get("return_t_hat"):
                return
            _judge_t(rec, ctx, cls_name, result, n_channels, n_poles, kw)
        return ensure
    attach(K.RelativisticKMatrix, "formulate", hook="RelativisticKMatrix.formulate", rec=rec, ensure=make_ensure("RelativisticKMatrix"))
    attach(K.NonRelativisticKMatrix, "formulate", hook="NonRelativisticKMatrix.formulate", rec=rec, ensure=make_ensure("NonRelativisticKMatrix"))


def _judge_t(rec, ctx, cls_name, T, n_ch, n_poles, kw):
    from vmon.refmodel.kmatrix import eval_matrix, eval_matrix_lambdify, random_env
    rng = ctx["case_rng"]
    n_s = 16
    sub = ctx.get("case_sub") if cls_name == "RelativisticKMatrix" else False
    env, desc = random_env(rng, n_ch, n_poles, n_s, subthreshold=sub)
    L = kw.get("angular_momentum", 0)
    ph = getattr(kw.get("phsp_factor"), "__name__", None)
    below = desc["poles_below_a_threshold"] > 0
    feats = {"cls": cls_name, "n_ch": n_ch, "n_poles": n_poles, "L": L, "phsp": ph, "pole_below_a_channel_threshold": below,
             # Gamma(s) = Gamma0 (F/F0)^2 rho/rho0 is normalised at the pole mass: rho0 is imaginary there for the factors
             # that continue analytically below threshold, and F0^2 = B_L^2(q0^2 d^2) is negative for odd L
             "closed_channel_width_normalisation_not_positive": below and (ph != "PhaseSpaceFactorAbs" or L % 2 == 1)}
    rec.hit(f"judge:{cls_name}")
    Tn = eval_matrix(T, env, n_s)
    fin = np.isfinite(Tn).all()
    wit = {k: v for k, v in desc.items()}
    rec.check(bool(fin), "non_finite", f"{cls_name}({n_ch},{n_poles}) T-matrix not finite above thresholds", wit, feats)
    if not fin:
        return
    tmax = float(np.abs(Tn).max())
    rec.case((cls_name, n_ch, n_poles, L, ph, below), n_ch * n_poles >= 2 and tmax > 1e-3, cls=cls_name, n_channels=n_ch, n_poles=n_poles, L=L, phsp=ph, pole_below_a_channel_threshold=below)
    rec.sample(f"{cls_name}:{n_ch}x{n_poles}", {**wit, "L": L, "phsp": ph, "max|T|": tmax})
    s = desc["s"]
    dpole = np.min(np.abs(s[:, None] - desc["pole_masses"][None, :] ** 2), axis=1)
    # K ~ g^2/(m^2-s): rounding amplified by 1/dpole; T bounded by unitarity (|T| <= 1)
    tol = 1e-10 * (1 + 1 / dpole) * (1 + tmax) ** 2 * n_ch * n_poles
    # empirical conditioning of the *evaluation* of the symbolic expression (the closed-form 3x3 inverse and the L = 3, 4 barrier
    # polynomials cancel heavily near a pole): change of T under three 1e-13 relative perturbations of all inputs, times 1e3.
    # The identity is a statement about the formulated T; rounding of its float evaluation is not a defect of the formula.
    noise = np.zeros(n_s)
    for _ in range(3):
        env2 = {k_: (v_ * (1 + 1e-13 * rng.normal(size=np.shape(v_))) if isinstance(v_, np.ndarray) and v_.dtype.kind == "f" else v_) for k_, v_ in env.items()}
        d_ = np.abs(eval_matrix(T, env2, n_s) - Tn).max(axis=(1, 2))
        noise = np.maximum(noise, np.where(np.isfinite(d_), d_, np.inf))
    tol = tol + 1e3 * 8 * noise * (1 + tmax)
    rec.stratum("evaluation_conditioning", "well" if float(np.median(noise)) < 1e-11 else "ill")
    S = np.eye(n_ch) + 2j * Tn
    dev = np.abs(np.einsum("nji,njk->nik", S.conj(), S) - np.eye(n_ch)).max(axis=(1, 2))
    i = int(np.argmax(dev / tol))
    rec.check(bool((dev <= tol).all()), "not_unitary",
              f"{cls_name}({n_ch} ch, {n_poles} poles, L={L}, {ph}): |S^dagger S - 1| = {dev[i]:.3g} at s={s[i]:.6g} (tol {tol[i]:.2g})",
              {**wit, "s_bad": s[i], "dev": dev[i]}, feats)
    sym = np.abs(Tn - np.swapaxes(Tn, 1, 2)).max(axis=(1, 2))
    i = int(np.argmax(sym / tol))
    rec.check(bool((sym <= tol).all()), "not_symmetric", f"{cls_name}({n_ch},{n_poles}): |T - T^T| = {sym[i]:.3g} at s={s[i]:.6g}", {**wit, "s_bad": s[i]}, feats)
    if n_ch <= 2 and n_poles <= 2:
        Ta = eval_matrix_lambdify(T, env, n_s)
        d = np.abs(Ta - Tn).max(axis=(1, 2))
        rec.check(bool((d <= tol * 10).all()), "routes_disagree", f"{cls_name}: lambdified doit() differs from unfolded evaluate() by {d.max():.3g}", wit, feats)


def run_case(case, rec, ctx):
    import ampform.dynamics as D
    K = ctx["K"]
    ctx["case_rng"] = np.random.default_rng([ctx["seed"], 9, case["idx"]])
    if case["cls"] == "history":
        ctx["case_sub"] = False
        for j, n_poles in enumerate(case["seq"]):
            if case["klass"] == "NonRelativisticKMatrix":
                if j == 1:
                    K.NonRelativisticKMatrix.formulate(case["n_ch"], n_poles, parametrize=False)
                K.NonRelativisticKMatrix.formulate(case["n_ch"], n_poles)
            else:
                if j == 1:
                    K.RelativisticKMatrix.formulate(case["n_ch"], n_poles, return_t_hat=True)
                K.RelativisticKMatrix.formulate(case["n_ch"], n_poles, phsp_factor=getattr(D, REAL_PHSP[(j + case["rep"]) % 3]),
                                                angular_momentum=(j + case["rep"]) % 3, meson_radius=[1, 2][j % 2])
        return
    cls = getattr(K, case["cls"])
    ctx["case_sub"] = case.get("sub") or False
    if case["cls"] == "NonRelativisticKMatrix":
        cls.formulate(case["n_ch"], case["n_poles"])
    else:
        cls.formulate(case["n_ch"], case["n_poles"], phsp_factor=getattr(D, case["phsp"]),
                      angular_momentum=case["L"], meson_radius=1)


META = {
    "technique": "runtime post-condition on (Non)RelativisticKMatrix.formulate: the returned T-matrix is evaluated numerically (memoised interpreter; lambdified doit() cross-check) on random real parameter sets and judged for S-matrix unitarity and symmetry with numpy",
    "level_text": "Every formulate() call of the workload (n_channels 1..2 quick / 1..3 thorough, n_poles 1..3/4, L 0..2/4, the three phase-space factors that are real above threshold) is judged at 16 s-values above all thresholds on a fresh random real parameter set: ||(1+2iT)^dagger(1+2iT)-1|| and ||T-T^T|| must vanish to a tolerance scaled by the distance to the nearest pole. Evidence of executions, not proof. Strata with a pole below a channel threshold and below a pseudo-threshold, 3-channel cases also in the quick tier, and call histories (several formulate() calls with the same n_channels in one process) are included.",
    "level_note": "numpy linear algebra trusted; s within 0.02 of a pole and below the highest threshold are not generated; 3-channel cases only in the thorough tier (symbolic inverse costs ~30 s per process).",
}
