"""C13 — dynamics attach to the right decay with the right variables and defaults."""
from __future__ import annotations

import numpy as np

ID = "C13"
LEVEL = "exploration"
RULE = ("case = (reaction, random sequence of 1-8 DynamicsSelector.assign operations by name / Particle / TwoBodyDecay / "
        "(transition, node) with a logging probe builder and the library's Breit-Wigner builders, incl. re-assignments). "
        "Monitors: history monitor on assign and __getitem__ checked against a last-write-wins model over our own list of "
        "decays; recording hook on the per-chain method; post-condition on formulate comparing every chain with its "
        "dynamics-free twin. distinct = (reaction, selection kinds used, number of re-assignments); non-trivial iff >= 2 "
        "resonances or nodes are affected differently or a re-assignment overrides an earlier one")
ASSUMPTIONS = ["expected variables of a node: invariant-mass symbols named after the attached final-state ids (C07 naming), L = l_magnitude, else the integer parent spin, else None",
               "the probe builder returns an opaque marker Dyn(resonance, m_in, m_1, m_2, L)"]
FLOORS = {"quick": {"evaluations": 1500, "distinct_nontrivial": 40,
                    "hooks": ["DynamicsSelector.assign", "probe_builder", "HelicityAmplitudeBuilder.__formulate_sequential_decay"]},
          "thorough": {"evaluations": 15000, "distinct_nontrivial": 300,
                       "hooks": ["DynamicsSelector.assign", "probe_builder", "HelicityAmplitudeBuilder.__formulate_sequential_decay"]}}
CASE_TIMEOUT = {"quick": 300, "thorough": 900}
WALL_BUDGET = {"quick": 900, "thorough": 10800}


def plan(tier, seed):
    from vmon.workloads.reactions import fixture_names
    rng = np.random.default_rng([seed, 13])
    cases = []
    skip = ("psi2s", "lambdab")
    for name in fixture_names():
        if name.startswith(skip) and name.endswith(".can"):
            continue
        for k in range(2 if tier == "quick" else 12):
            cases.append({"reaction": {"kind": "fixture", "name": name}, "seed": int(rng.integers(1 << 30)), "cost": 5.0 if name.endswith(".can") else 2.0})
    for k in range(40 if tier == "quick" else 600):
        cases.append({"reaction": {"kind": "synth", "seed": int(rng.integers(1 << 30)), "formalism": ["helicity", "canonical-helicity"][k % 2]},
                      "seed": int(rng.integers(1 << 30)), "cost": 2.0})
    return cases


def setup_worker(rec, ctx):
    import sympy as sp
    from ampform.helicity import DynamicsSelector
    from vmon.core import attach
    from vmon.refmodel.helicity import ChainLog
    ctx["log"] = ChainLog()
    ctx["log"].install(rec)
    ctx["assign_history"] = []
    ctx["Dyn"] = sp.Function("Dyn")

    def snapshot_assign(self, selection, builder):
        ctx["assign_history"].append((id(self), selection, builder))
    attach(DynamicsSelector, "assign", hook="DynamicsSelector.assign", rec=rec, snapshot=snapshot_assign)


def make_probe(rec, ctx, tag):
    import sympy as sp

    def probe(resonance, variable_pool):
        rec.hit("probe_builder")
        L = -1 if variable_pool.angular_momentum is None else variable_pool.angular_momentum
        par = sp.Symbol(f"q_{{{resonance.name}}}^{tag}")
        ctx["probe_calls"].append((tag, resonance.name, variable_pool))
        return ctx["Dyn"](sp.Symbol(f"tag{tag}"), variable_pool.incoming_state_mass, variable_pool.outgoing_state_mass1,
                          variable_pool.outgoing_state_mass2, sp.Integer(L), par), {par: 1.0}
    probe.__name__ = f"probe{tag}"
    return probe


def decays_of(reaction):
    """Our own list of (transition index, node, parent particle name) - independent of TwoBodyDecay."""
    out = []
    for ti, t in enumerate(reaction.transitions):
        for n in sorted(t.topology.nodes):
            out.append((ti, n))
    return out


def run_case(case, rec, ctx):
    import sympy as sp
    from ampform import get_builder
    from ampform.dynamics.builder import create_non_dynamic, create_relativistic_breit_wigner
    from ampform.helicity.decay import TwoBodyDecay
    from vmon.numeval import eval_expr
    from vmon.props.c01 import make_reaction
    from vmon.refmodel import helicity as RH
    from vmon.workloads import configs as C
    from vmon.workloads import reactions as R
    rng = np.random.default_rng([case["seed"]])
    reaction, rname = make_reaction(case["reaction"])
    if reaction is None:
        rec.note("synthetic_reaction_not_constructible")
        return
    res_names = C.resonances(reaction)
    init_name = next(iter(reaction.initial_state.values())).name
    names = res_names + [init_name]
    ctx["probe_calls"] = []
    ctx["assign_history"].clear()
    # dynamics-free reference build
    b0 = get_builder(reaction)
    ctx["log"].clear()
    m0 = b0.formulate()
    free_chains = {RH.chain_key(tr): expr for tr, expr in ctx["log"].records}
    b = get_builder(reaction)
    # ---- random assignment history; our model: last write wins per (transition, node)
    model: dict = {}
    node_parent_name = {(ti, n): reaction.transitions[ti].states[RH.node_info(reaction.transitions[ti], n)["parent"]].particle.name for ti, n in decays_of(reaction)}
    probes = {}
    kinds_used = []
    ops_detail = []
    n_ops = int(rng.integers(1, 9))
    overrides = 0
    for k in range(n_ops):
        kind = str(rng.choice(["name", "particle", "decay", "tuple"]))
        which = str(rng.choice(["probe", "probe", "bw", "non_dynamic"]))
        if which == "probe":
            tag = len(probes)
            fn = probes[tag] = make_probe(rec, ctx, tag)
            label = ("probe", tag)
        elif which == "bw":
            fn, label = create_relativistic_breit_wigner, ("bw", None)
        else:
            fn, label = create_non_dynamic, ("none", None)
        target = str(rng.choice(names))
        kinds_used.append(kind)
        ops_detail.append([kind, label, target])
        if kind in ("name", "particle"):
            if kind == "name":
                b.dynamics.assign(target, fn)
            else:
                part = next((p for p in list(reaction.get_intermediate_particles()) + list(reaction.initial_state.values()) if p.name == target))
                b.dynamics.assign(part, fn)
            for key, pname in node_parent_name.items():
                if pname == target:
                    overrides += key in model
                    model[key] = label
        else:
            cands = [key for key, pname in node_parent_name.items() if pname == target]
            ti, n = cands[int(rng.integers(len(cands)))]
            tr = reaction.transitions[ti]
            ops_detail[-1] += [ti, n]
            if kind == "decay":
                b.dynamics.assign(TwoBodyDecay.from_transition(tr, n), fn)
            else:
                b.dynamics.assign((tr, n), fn)
            # the selector is keyed by the *decay* (parent/children states + interaction): every (transition, node) with
            # an equal decay is the same key
            i0 = RH.node_info(tr, n)
            for (tj, nj) in node_parent_name:
                trj = reaction.transitions[tj]
                ij = RH.node_info(trj, nj)
                same = all(trj.states[ij[e]] == tr.states[i0[e]] and ij[e] == i0[e] for e in ("parent", "h", "o")) and trj.interactions[nj] == tr.interactions[n]
                if same:
                    overrides += (tj, nj) in model
                    model[tj, nj] = label
    feats = {"formalism": reaction.formalism, "n_resonances": len(res_names), "n_ops": n_ops, "kinds": sorted(set(kinds_used))}
    label_case = f"{rname} [{n_ops} assign ops: {kinds_used}]"
    # ---- selector state vs model
    for (ti, n), pname in node_parent_name.items():
        tr = reaction.transitions[ti]
        got = b.dynamics[(tr, n)]
        want = model.get((ti, n), ("none", None))
        got_label = ("bw", None) if got is create_relativistic_breit_wigner else ("none", None) if got is create_non_dynamic else \
            next((("probe", t) for t, f in probes.items() if f is got), ("unknown", None))
        rec.check(got_label == want, "selector_state",
                  f"{label_case}: decay (transition {ti}, node {n}, parent {pname}) is mapped to {got_label} but the last matching assignment chose {want}",
                  {"transition": ti, "node": n, "parent": pname}, feats)
    # a symmetrised chain (identical particles swapped) has the decays of the listed transition it came from
    from qrules.transition import ReactionInfo
    origin_index: dict = {}
    for ti_, t_ in enumerate(reaction.transitions):
        for ch in RH.expected_chains(ReactionInfo([t_], formalism=reaction.formalism)):
            origin_index.setdefault(RH.chain_key(ch), ti_)
    # ---- formulate and compare every chain with its dynamics-free twin
    ctx["log"].clear()
    ctx["probe_calls"].clear()
    m1 = b.formulate()
    point = None
    affected_patterns = set()
    for tr, expr in ctx["log"].records:
        key = RH.chain_key(tr)
        base = free_chains.get(key)
        if base is None:
            rec.check(False, "chain_missing_in_reference", f"{label_case}: chain formulated with dynamics has no dynamics-free twin", None, feats)
            continue
        ti = origin_index.get(key)
        # expected factor per node
        expected_markers = []
        bw_nodes = []
        for n in sorted(tr.topology.nodes):
            i = RH.node_info(tr, n)
            # a symmetrised chain (identical particles swapped) has the decays of the transition it came from
            lab = model.get((ti, n), ("none", None)) if ti is not None else ("none", None)
            L = i["L"]
            if L is None and i["J"].denominator == 1:
                L = int(i["J"])
            if lab[0] == "probe":
                expected_markers.append((lab[1], i["m_parent"], i["m_h"], i["m_o"], -1 if L is None else int(L), i["parent_particle"].name))
            elif lab[0] == "bw":
                bw_nodes.append(i)
        affected_patterns.add((len(expected_markers), len(bw_nodes)))
        markers = sorted(((int(str(a.args[0])[3:]), str(a.args[1]), str(a.args[2]), str(a.args[3]), int(a.args[4]), str(a.args[5])[3:].split("}")[0])
                          for a in expr.atoms(ctx["Dyn"])), key=str)
        rec.check(markers == sorted(expected_markers, key=str), "dynamics_variables",
                  f"{label_case}: chain {_cs(tr)} carries the lineshape markers {markers} but its selected nodes call for {sorted(expected_markers, key=str)} "
                  f"(marker = builder tag, m_parent, m_child1, m_child2, L, resonance)", {"chain": _cs(tr), "expr": str(expr)[:400], "ops": ops_detail}, feats)
        # ratio to the dynamics-free chain = product of the markers x product of Breit-Wigners on that node's own mass
        ratio = sp.cancel(expr / base) if base != 0 else None
        if ratio is not None:
            stripped = ratio
            for a in expr.atoms(ctx["Dyn"]):
                stripped = stripped / a
            stripped = sp.simplify(stripped) if not bw_nodes else stripped
            if not bw_nodes:
                rec.check(stripped == 1, "dynamics_factor", f"{label_case}: chain/dynamics-free chain = {ratio}, expected exactly the product of its markers",
                          {"chain": _cs(tr), "ratio": str(ratio)[:300]}, feats)
            else:
                if point is None:
                    prng = np.random.default_rng([case["seed"], 5])
                    point = {}
                syms = [s for s in stripped.free_symbols if isinstance(s, sp.Symbol)]
                vals = {}
                for s in syms:
                    if s.name not in point:
                        point[s.name] = prng.uniform(0.6, 2.4, 3)
                    vals[s] = point[s.name]
                pv = {s.name: vals[s] for s in syms}
                got = np.asarray(eval_expr(stripped, vals)) * np.ones(3)
                ref = np.ones(3, dtype=complex)
                for i in bw_nodes:
                    ident = i["parent_particle"].latex or i["parent_particle"].name
                    m0_, g0_ = pv[f"m_{{{ident}}}"], pv[Rf"\Gamma_{{{ident}}}"]
                    ref = ref * (g0_ * m0_ / (m0_ ** 2 - pv[i["m_parent"]] ** 2 - 1j * g0_ * m0_))
                rec.check(bool(np.allclose(got, ref, rtol=1e-9)), "dynamics_factor",
                          f"{label_case}: chain/dynamics-free chain (markers removed) = {got[0]} but prod BW(m_parent^2; m0, Gamma0) over the selected nodes = {ref[0]}",
                          {"chain": _cs(tr)}, feats)
    # ---- parameter defaults equal the particle table
    parts = {p.name: p for p in list(reaction.get_intermediate_particles()) + list(reaction.initial_state.values())}
    for s, v in m1.parameter_defaults.items():
        for pname, part in parts.items():
            ident = part.latex or part.name
            if s.name == f"m_{{{ident}}}":
                rec.check(v == part.mass, "default_mass", f"{label_case}: default of {s} = {v} but the particle table has mass {part.mass}", None, feats)
            if s.name == Rf"\Gamma_{{{ident}}}":
                rec.check(v == part.width, "default_width", f"{label_case}: default of {s} = {v} but the particle table has width {part.width}", None, feats)
    # every probe call got the variables of its own node (cross-check of what the builder was handed)
    for tag, resname, vp in ctx["probe_calls"]:
        ok = isinstance(vp.incoming_state_mass, sp.Symbol) and vp.incoming_state_mass.name.startswith("m_")
        rec.check(ok, "probe_arguments", f"{label_case}: probe builder was called with {vp}", None, feats)
    nontrivial = (len(res_names) >= 2 and len({v for v in model.values()}) >= 2) or overrides > 0 or len(affected_patterns) >= 2
    rec.case((rname, tuple(sorted(set(kinds_used))), min(overrides, 3)), nontrivial, formalism=reaction.formalism, n_resonances=len(res_names),
             n_ops=n_ops, overrides=min(overrides, 5))
    rec.sample(f"{case['reaction']['kind']}", {"reaction": R.reaction_summary(reaction), "ops": list(zip(kinds_used, [str(h_[1])[:40] for h_ in ctx["assign_history"][:n_ops]])),
                                              "decays": len(node_parent_name), "assigned": len(model), "overrides": overrides, "probe_calls": len(ctx["probe_calls"])})


def _cs(tr):
    return "(" + ", ".join(f"{e}:{s.particle.name}[{float(s.spin_projection):+g}]" for e, s in sorted(tr.states.items())) + ")"


META = {
    "technique": "history monitor on DynamicsSelector.assign/__getitem__ checked against a last-write-wins model, a logging probe builder returning opaque markers, and a post-condition on formulate comparing every chain with its dynamics-free twin (structurally for markers, numerically for Breit-Wigners)",
    "level_text": "For every fixture (both formalisms) and synthetic reactions, 1-8 random assign operations (by name, Particle, TwoBodyDecay, (transition, node); probe builders, the library's Breit-Wigner, and resets to non-dynamic; re-assignments included) are applied; the selector's mapping is compared with an independent last-write-wins model over all (transition, node) pairs; every formulated chain must carry exactly the markers of its selected nodes with that node's own (m_parent, m_child1, m_child2, L) and nothing else, or the Breit-Wigner of its own invariant mass; mass and width defaults must equal the particle table.",
    "level_note": "Expected variable names follow the attached-final-state naming verified by C07; L = l_magnitude, else the integer parent spin, else None, as the statement says.",
}
