"""C01 oracle: every symbol of a model is defined, parameter xor kinematic variable."""
from __future__ import annotations

import itertools

import numpy as np
import sympy as sp


def reaction_features(reaction) -> dict:
    """Structural predicates of a reaction (used to classify findings by mechanism)."""
    from fractions import Fraction

    from vmon.workloads.reactions import topologies_of

    outer = list(reaction.initial_state) + sorted(reaction.final_state)
    pools = {i: sorted({Fraction(t.states[i].spin_projection).limit_denominator(2) for t in reaction.transitions}) for i in outer}
    have = {tuple(Fraction(t.states[i].spin_projection).limit_denominator(2) for i in outer) for t in reaction.transitions}
    n_all = int(np.prod([len(v) for v in pools.values()]))
    finals = reaction.final_state
    names = [finals[i].name for i in sorted(finals)]
    identical = [n for n in set(names) if names.count(n) > 1]
    identical_spinful = any(next(p for p in finals.values() if p.name == n).spin > 0 for n in identical)
    # identical particles attached to different nodes in some topology
    ident_diff_nodes = False
    for top in topologies_of(reaction):
        for n in identical:
            ids = [i for i in finals if finals[i].name == n]
            nodes = {top.edges[i].originating_node_id for i in ids}
            if len(nodes) > 1:
                ident_diff_nodes = True
    return {
        "outer_combinations_without_transition": n_all - len(have) if not identical else max(0, n_all - len(_symmetrised(have, outer, finals))),
        "has_absent_outer_combination": (n_all - len(_symmetrised(have, outer, finals))) > 0,
        "identical_final_state_particles": bool(identical),
        "identical_spinful_particles": bool(identical_spinful),
        "identical_particles_in_different_nodes": ident_diff_nodes,
        "n_topologies": len(topologies_of(reaction)),
        "formalism": reaction.formalism,
        "n_final": len(finals),
    }


def _symmetrised(have, outer, finals):
    """Close the set of outer helicity tuples under permutations of identical final-state particles."""
    names = {i: finals[i].name for i in finals}
    pos = {i: k for k, i in enumerate(outer)}
    groups = {}
    for i, n in names.items():
        groups.setdefault(n, []).append(i)
    out = set(have)
    for ids in groups.values():
        if len(ids) < 2:
            continue
        for tup in list(out):
            for perm in itertools.permutations(ids):
                t = list(tup)
                for a, b in zip(ids, perm):
                    t[pos[a]] = tup[pos[b]]
                out.add(tuple(t))
    return out


def scalar_symbols(expr):
    arr = {str(a.name) for a in expr.atoms(sp.tensor.array.expressions.ArraySymbol)}
    return {s for s in expr.free_symbols if isinstance(s, sp.Symbol) and s.name not in arr}


def judge_closure(rec, model, feats, label="model") -> bool:
    """Issue the C01 verdicts for one model; returns True when everything held."""
    ok_all = True
    P = set(model.parameter_defaults)
    K = set(model.kinematic_variables)
    try:
        expression = model.expression
    except Exception as exc:  # noqa: BLE001
        rec.check(False, "expression_raises", f"{label}: model.expression raised {type(exc).__name__}: {exc}", None, feats)
        return False
    undefined_amps = sorted(map(str, expression.atoms(sp.Indexed)))
    ok = not undefined_amps
    ok_all &= rec.check(ok, "undefined_amplitude",
                        f"{label}: the intensity sums over amplitude symbols that have no definition: {undefined_amps[:4]}{' ...' if len(undefined_amps) > 4 else ''} "
                        f"({len(undefined_amps)} of them; defined: {len(model.amplitudes)})",
                        {"undefined": undefined_amps[:12], "defined": [str(k) for k in list(model.amplitudes)[:12]]}, feats)
    labels = {str(a.base.label) for a in expression.atoms(sp.Indexed)}
    free = {s for s in expression.free_symbols if isinstance(s, sp.Symbol) and str(s) not in labels}
    neither = sorted((str(s) for s in free if s not in P and s not in K))
    ok_all &= rec.check(not neither, "symbol_undefined",
                        f"{label}: free symbols of the intensity that are neither parameter nor kinematic variable: {neither[:6]}",
                        {"symbols": neither[:20], "kinematic_variables": sorted(map(str, K))[:40]}, feats)
    both = sorted(str(s) for s in P & K)
    ok_all &= rec.check(not both, "symbol_both", f"{label}: symbols that are parameter AND kinematic variable: {both[:6]}", {"symbols": both}, feats)
    finals = set(model.reaction_info.final_state)
    bad_kin = []
    pvals = dict(model.parameter_defaults)
    for sym, expr in model.kinematic_variables.items():
        e = expr.xreplace(pvals)
        sc = scalar_symbols(e)
        arrs = {str(a.name) for a in e.atoms(sp.tensor.array.expressions.ArraySymbol)}
        foreign = {a for a in arrs if not (a.startswith("p") and a[1:].isdigit() and int(a[1:]) in finals)}
        if sc or foreign:
            bad_kin.append((str(sym), sorted(map(str, sc))[:5], sorted(foreign)[:3]))
    ok_all &= rec.check(not bad_kin, "kinematic_variable_not_closed",
                        f"{label}: after inserting the parameter defaults, kinematic variables still depend on other symbols: {bad_kin[:3]}",
                        {"variables": bad_kin[:10]}, feats)
    return bool(ok_all)


def judge_evaluable(rec, model, feats, rng, label="model", n_events=6, fast=True):
    """Evaluate four-momenta -> kinematic variables -> intensity at regular points: must be finite."""
    from vmon.numeval import eval_model
    from vmon.workloads.configs import random_parameters
    from vmon.workloads.events import gen_events
    from vmon.workloads.reactions import final_state_masses, initial_mass

    r = model.reaction_info
    fm = final_state_masses(r)
    ids = sorted(fm)
    ev = gen_events(initial_mass(r), [fm[i] for i in ids], n_events, rng, ids=ids)
    pv = random_parameters(model, rng)
    try:
        val, _ = eval_model(model, ev, pv, fast=fast)
    except Exception as exc:  # noqa: BLE001
        rec.check(False, "not_evaluable", f"{label}: evaluating the model from four-momenta raised {type(exc).__name__}: {str(exc)[:200]}", None, feats)
        return None
    val = np.asarray(val) * np.ones(n_events)
    finite = np.isfinite(val).all()
    if not finite and feats.get("subthreshold_resonance_with_energy_dependent_width"):
        # closed channel at the pole mass: rho(m0^2) = sqrt(negative) is NaN in the real-dtype code (KF-C09's mechanism); the symbol
        # closure that C01 states is judged by the post-condition, the numbers are not judged here
        rec.note("not_finite:subthreshold_resonance_with_energy_dependent_width")
        return None
    rec.check(bool(finite), "not_finite", f"{label}: intensity is not finite at regular phase-space points: {val[:3]}", {"values": val}, feats)
    if finite:
        rec.check(bool((np.abs(val.imag) <= 1e-9 * (1 + np.abs(val.real))).all() and (val.real >= -1e-9 * np.abs(val.real).max()).all()),
                  "intensity_not_real_nonnegative", f"{label}: intensity is not real and >= 0: {val[:3]}", {"values": val}, feats)
    return val
