"""Numeric helpers for the K-matrix properties (C09, C10): parameter environments and evaluation."""
from __future__ import annotations

import numpy as np
import sympy as sp


def symbols():
    return {
        "s": sp.Symbol("s", nonnegative=True),
        "m": sp.IndexedBase("m", nonnegative=True),
        "Gamma": sp.IndexedBase("Gamma", nonnegative=True),
        "gamma": sp.IndexedBase("gamma", nonnegative=True),
        "beta": sp.IndexedBase("beta", nonnegative=True),
        "m_a": sp.IndexedBase("m_a", nonnegative=True),
        "m_b": sp.IndexedBase("m_b", nonnegative=True),
        "R": sp.Symbol("R", integer=True, positive=True),
    }


def random_env(rng, n_ch: int, n_poles: int, n_s: int, complex_beta: bool = True, subthreshold: bool = False):
    """Real pole masses / widths / residues; s above all thresholds and away from poles.

    ``subthreshold``: the lightest pole lies below the highest channel threshold (a closed channel at the pole
    mass, Flatte-like) - still real parameters and s above all thresholds."""
    S = symbols()
    ma = rng.uniform(0.1, 0.6, n_ch)
    mb = np.where(rng.uniform(size=n_ch) < 0.3, ma, rng.uniform(0.1, 0.6, n_ch))
    thr = float(np.max((ma + mb) ** 2))
    m = np.zeros(n_poles + 1)
    m[1:] = np.sort(rng.uniform(np.sqrt(thr) * 1.05, np.sqrt(thr) * 1.05 + 2.0, n_poles))
    if subthreshold:
        # between the lowest and the highest threshold if they differ (open in one channel, closed in another),
        # else below the common threshold
        lo = float(np.min(ma + mb))
        hi = float(np.sqrt(thr))
        m[1] = rng.uniform(lo + 0.1 * (hi - lo), hi - 0.1 * (hi - lo)) if hi - lo > 0.05 else rng.uniform(0.5 * hi, 0.9 * hi)
        if subthreshold == "pseudo":
            # far below: under the pseudo-threshold |m_a - m_b| of a channel with unequal daughter masses
            ma[0], mb[0] = rng.uniform(0.6, 0.9), rng.uniform(0.05, 0.15)
            thr = float(np.max((ma + mb) ** 2))
            m[1:] = np.sort(rng.uniform(np.sqrt(thr) * 1.05, np.sqrt(thr) * 1.05 + 2.0, n_poles))
            m[1] = rng.uniform(0.3, 0.9) * abs(ma[0] - mb[0])
        m[1:] = np.sort(m[1:])
    G = np.zeros((n_poles + 1, n_ch)); G[1:] = rng.uniform(0.05, 0.4, (n_poles, n_ch))
    g = np.zeros((n_poles + 1, n_ch)); g[1:] = rng.uniform(0.3, 1.5, (n_poles, n_ch))
    beta = np.zeros(n_poles + 1, dtype=complex)
    beta[1:] = rng.uniform(0.2, 1.5, n_poles) * (np.exp(1j * rng.uniform(0, 2 * np.pi, n_poles)) if complex_beta else 1.0)
    s = rng.uniform(thr * 1.02, max(thr * 1.5, (m[-1] + 0.8) ** 2), n_s)
    # keep away from the poles (K is singular there)
    for _ in range(20):
        d = np.min(np.abs(s[:, None] - m[None, 1:] ** 2), axis=1)
        bad = d < 0.02
        if not bad.any():
            break
        s[bad] = rng.uniform(thr * 1.02, max(thr * 1.5, (m[-1] + 0.8) ** 2), int(bad.sum()))
    env = {S["s"]: s, S["m"]: m, S["Gamma"]: G, S["gamma"]: g, S["beta"]: beta, S["m_a"]: ma, S["m_b"]: mb}
    desc = {"poles_below_a_threshold": int((m[1:, None] < (ma + mb)[None, :]).any(axis=1).sum()),
            "m_a": ma, "m_b": mb, "pole_masses": m[1:], "widths": G[1:], "residues": g[1:], "beta": beta[1:], "s": s}
    return env, desc


def eval_matrix(mat, env, n_s: int):
    """Route B on every element of a sympy Matrix -> array (n_s, rows, cols)."""
    from vmon.numeval import neval

    memo: dict = {}
    rows, cols = mat.shape
    out = np.empty((n_s, rows, cols), dtype=complex)
    for i in range(rows):
        for j in range(cols):
            with np.errstate(all="ignore"):
                out[:, i, j] = np.asarray(neval(mat[i, j], env, memo)) * np.ones(n_s)
    return out


def eval_matrix_lambdify(mat, env, n_s: int):
    """Route A: doit() + lambdify with Indexed replaced by plain symbols."""
    rep = {}
    vals = {}
    # unroll the finite pole sums ourselves: Sum.doit() attempts symbolic summation over Indexed (minutes)
    sums = {}
    for node in mat.atoms(sp.Sum):
        body, (k, a, b) = node.args[0], node.args[1]
        sums[node] = sp.Add(*[body.xreplace({k: sp.Integer(i)}) for i in range(int(a), int(b) + 1)])
    d = mat.xreplace(sums).doit()
    for ix in d.atoms(sp.Indexed):
        base = env[ix.base]
        idx = tuple(int(i) for i in ix.indices)
        sym = sp.Dummy(str(ix).replace("[", "_").replace("]", "").replace(", ", "_"))
        rep[ix] = sym
        vals[sym] = base[idx]
    d = d.xreplace(rep)
    s = symbols()["s"]
    args = sorted(d.free_symbols, key=str)
    f = sp.lambdify(args, d, "numpy")
    out = np.empty((n_s,) + mat.shape, dtype=complex)
    sv = env[s]
    for k in range(n_s):
        with np.errstate(all="ignore"):
            out[k] = np.asarray(f(*[(sv[k] if a == s else vals[a]) for a in args]), dtype=complex).reshape(mat.shape)
    return out
