"""Reference helicity angles / invariant masses from four-momenta (boost-and-project).

No rotation matrices and no Euler conventions shared with ampform: a sub-system's frame
is reached by a *pure boost* (vector formula) from its parent's frame followed by a
projection on the axes z' = p_hat, y' = z_parent x p_hat, x' = y' x z', which is the
helicity frame of Jacob-Wick with gamma = 0.
"""
from __future__ import annotations

import numpy as np

from vmon.workloads.events import boost_to_rest, mass2
from vmon.workloads.reactions import angle_suffix, attached, mass_name, node_children


def axes_from(pvec: np.ndarray):
    n = np.linalg.norm(pvec, axis=1)
    z = pvec / n[:, None]
    ez = np.array([0.0, 0.0, 1.0])
    y = np.cross(np.broadcast_to(ez, z.shape), z)
    ny = np.linalg.norm(y, axis=1)
    # momentum along +-z: azimuth undefined; ampform's atan2(0, 0) = 0 corresponds to y' = y
    y = np.where((ny > 0)[:, None], y / np.where(ny > 0, ny, 1)[:, None], np.array([0.0, 1.0, 0.0]))
    x = np.cross(y, z)
    return x, y, z


def project(q: np.ndarray, axes) -> np.ndarray:
    x, y, z = axes
    v = q[:, 1:]
    return np.concatenate([q[:, [0]], np.sum(v * x, 1)[:, None], np.sum(v * y, 1)[:, None], np.sum(v * z, 1)[:, None]], 1)


def polar_angles(q: np.ndarray):
    v = q[:, 1:]
    r = np.linalg.norm(v, axis=1)
    phi = np.arctan2(v[:, 1], v[:, 0])
    theta = np.arctan2(np.linalg.norm(v[:, :2], axis=1), v[:, 2])  # robust near 0 and pi
    return phi, theta, r


def angle_source(top, node, rule: str = "documented"):
    """Which child's momentum defines (phi, theta) of a node, and under which child's name.

    name: always the helicity state (child with the smaller tuple of attached final-state ids).
    momentum: the child that decays further if exactly one does; if none or both do,
      rule 'documented' -> the helicity state itself (docstring of is_opposite_helicity_state)
    """
    h, o = node_children(top, node)
    decaying = [c for c in (h, o) if top.edges[c].ending_node_id is not None]
    if len(decaying) == 1:
        src = decaying[0]
    else:
        src = h
    return h, src, decaying


def reference_kinematics(top, events: dict[int, np.ndarray]) -> tuple[dict[str, np.ndarray], dict[str, dict]]:
    """name -> values for every mass and helicity angle of the topology, plus conditioning info per name."""
    out: dict[str, np.ndarray] = {}
    info: dict[str, dict] = {}
    for eid in top.edges:
        ids = attached(top, eid)
        psum = sum(events[i] for i in ids)
        out[mass_name(top, eid)] = np.sqrt(np.maximum(mass2(psum), 0.0))
        info[mass_name(top, eid)] = {"kind": "mass", "ids": ids, "energy": psum[:, 0]}

    def rec(node, momenta, gamma_acc, sin_min=None, pt_zero=None):
        h, src, decaying = angle_source(top, node)
        psrc = sum(momenta[i] for i in attached(top, src))
        phi, theta, r = polar_angles(psrc)
        suf = angle_suffix(top, h)
        out["phi" + suf] = phi
        out["theta" + suf] = theta
        sin_here = np.abs(np.sin(theta))
        sin_chain = sin_here if sin_min is None else np.minimum(sin_min, sin_here)
        cond = {"kind": "angle", "node": node, "source_edge": src, "named_after": h, "sin_theta": np.sin(theta), "p": r,
                "sin_chain_min": sin_chain, "ancestor_pt_exactly_zero": np.zeros(len(r), dtype=bool) if pt_zero is None else pt_zero,
                "gamma_chain": gamma_acc, "both_children_decay": len(decaying) == 2, "scale": sum(momenta[i][:, 0] for i in momenta)}
        info["phi" + suf] = cond
        info["theta" + suf] = cond
        for c in decaying:
            ids = attached(top, c)
            pc = sum(momenta[i] for i in ids)
            ax = axes_from(pc[:, 1:])
            mc = np.sqrt(np.maximum(mass2(pc), 1e-300))
            sub = {i: project(boost_to_rest(momenta[i], pc), ax) for i in ids}
            _, th_c, _ = polar_angles(pc)
            sc = np.abs(np.sin(th_c))
            ptz = (pc[:, 1] == 0) & (pc[:, 2] == 0)
            rec(top.edges[c].ending_node_id, sub, gamma_acc * pc[:, 0] / mc, sc if sin_min is None else np.minimum(sin_min, sc),
                ptz if pt_zero is None else (pt_zero | ptz))

    init = next(iter(top.incoming_edge_ids))
    n = len(next(iter(events.values())))
    rec(top.edges[init].ending_node_id, events, np.ones(n))
    return out, info


def angle_diff(a, b):
    return np.abs(np.angle(np.exp(1j * (np.asarray(a) - np.asarray(b)))))
