"""Reference helicity / canonical amplitude formula evaluated directly on qrules transitions.

Independent of ampform.helicity: children ordering, angle names and the formula
    prod_nodes  conj-D^J_{m, l1-l2}(phi, theta)  x  [CG(L 0; S d | J d) CG(s1 l1; s2 -l2 | S d)]  x  lineshape
are implemented here from the documented conventions (Jacob-Wick with gamma = 0; helicity
state = child with the smaller tuple of attached final-state ids).
"""
from __future__ import annotations

import itertools
from fractions import Fraction

import numpy as np

from vmon.numeval import cg_ref, wigner_D_num
from vmon.workloads.reactions import angle_suffix, attached, mass_name, node_children, node_parent


def frac(x) -> Fraction:
    return Fraction(x).limit_denominator(2)


def node_info(tr, node) -> dict:
    top = tr.topology
    pin = node_parent(top, node)
    h, o = node_children(top, node)
    sp_, sh, so = tr.states[pin], tr.states[h], tr.states[o]
    it = tr.interactions[node]
    return {
        "node": node, "parent": pin, "h": h, "o": o,
        "J": frac(sp_.particle.spin), "m": frac(sp_.spin_projection),
        "s1": frac(sh.particle.spin), "l1": frac(sh.spin_projection),
        "s2": frac(so.particle.spin), "l2": frac(so.spin_projection),
        "P": sp_.particle.parity, "P1": sh.particle.parity, "P2": so.particle.parity,
        "L": it.l_magnitude, "S": it.s_magnitude, "parity_prefactor": it.parity_prefactor,
        "suffix": angle_suffix(top, h), "parent_particle": sp_.particle,
        "m_parent": mass_name(top, pin), "m_h": mass_name(top, h), "m_o": mass_name(top, o),
    }


def eta(info) -> int | None:
    """eta = P P1 P2 (-1)^(J - s1 - s2) from the particles (None if a parity is undefined)."""
    if info["P"] is None or info["P1"] is None or info["P2"] is None:
        return None
    e = info["J"] - info["s1"] - info["s2"]
    if e.denominator != 1:
        return None
    return int(int(info["P"]) * int(info["P1"]) * int(info["P2"]) * (-1) ** (int(e) % 2))


def chain_reference(tr, point: dict, canonical: bool, lineshape=None):
    """Value of one decay chain at ``point`` (name -> array) without coefficient and without parity sign."""
    val = 1.0
    for node in sorted(tr.topology.nodes):
        i = node_info(tr, node)
        phi, th = point["phi" + i["suffix"]], point["theta" + i["suffix"]]
        val = val * wigner_D_num(i["J"], i["m"], i["l1"] - i["l2"], -np.asarray(phi), th, 0)
        if canonical:
            d = i["l1"] - i["l2"]
            val = val * cg_ref(i["L"], 0, i["S"], d, i["J"], d) * cg_ref(i["s1"], i["l1"], i["s2"], -i["l2"], i["S"], d)
        if lineshape is not None:
            val = val * lineshape(i, point)
    return val


def cg_factor(tr) -> float:
    out = 1.0
    for node in sorted(tr.topology.nodes):
        i = node_info(tr, node)
        d = i["l1"] - i["l2"]
        out *= cg_ref(i["L"], 0, i["S"], d, i["J"], d) * cg_ref(i["s1"], i["l1"], i["s2"], -i["l2"], i["S"], d)
    return out


def helicity_key(tr) -> tuple:
    """Helicity assignment of all edges (identifies the helicity chain irrespective of LS)."""
    return (tr.topology,) + tuple(sorted((e, s.particle.name, float(s.spin_projection)) for e, s in tr.states.items()))


def chain_key(tr) -> tuple:
    return helicity_key(tr) + tuple(sorted((n, i.l_magnitude, str(i.s_magnitude)) for n, i in tr.interactions.items()))


def outer_key(tr) -> tuple:
    top = tr.topology
    ids = list(top.incoming_edge_ids) + sorted(top.outgoing_edge_ids)
    return tuple(float(tr.states[i].spin_projection) for i in ids)


ORIGIN: dict = {}  # chain key -> topology of the listed transition it was symmetrised from (filled by expected_chains)


def expected_chains(reaction) -> list:
    """Permutation closure over identical final-state particles of reaction.transitions (each distinct chain once
    per listed transition, as the documented symmetrisation prescribes)."""
    import attrs

    out = []
    for tr in reaction.transitions:
        top = tr.topology
        finals = sorted(top.outgoing_edge_ids)
        groups: dict = {}
        for i in finals:
            groups.setdefault(tr.states[i].particle.name, []).append(i)
        perms_per_group = [list(itertools.permutations(ids)) for ids in groups.values() if len(ids) > 1]
        group_ids = [ids for ids in groups.values() if len(ids) > 1]
        if not perms_per_group:
            out.append(tr)
            ORIGIN[chain_key(tr)] = tr.topology
            continue
        seen = set()
        for combo in itertools.product(*perms_per_group):
            mapping = {}
            for ids, perm in zip(group_ids, combo):
                mapping.update(dict(zip(ids, perm)))
            # swap the external edges: edge id i now sits where mapping[i] was
            new_edges = {mapping.get(i, i): e for i, e in top.edges.items()}
            new_top = attrs.evolve(top, edges=new_edges)
            new_states = {mapping.get(i, i): s for i, s in tr.states.items()}
            t2 = attrs.evolve(tr, topology=new_top, states=new_states)
            k = chain_key(t2)
            if k not in seen:
                seen.add(k)
                out.append(t2)
                ORIGIN.setdefault(k, top)
    return out


class ChainLog:
    """Recording hook on the per-chain method of the builder: (transition, expression) pairs."""

    def __init__(self) -> None:
        self.records: list[tuple] = []
        self.partial: list[tuple] = []

    def install(self, rec):
        from ampform.helicity import HelicityAmplitudeBuilder
        from vmon.core import attach

        log = self

        def ensure_seq(old, result, self_, transition):
            log.records.append((transition, result))

        attach(HelicityAmplitudeBuilder, "_HelicityAmplitudeBuilder__formulate_sequential_decay",
               hook="HelicityAmplitudeBuilder.__formulate_sequential_decay", rec=rec, ensure=ensure_seq)

    def clear(self):
        self.records.clear()
        self.partial.clear()


def random_point(symbols, rng, n=4) -> dict:
    """Independent random inputs by name: phi in (-pi, pi), theta in (0, pi), masses > 0."""
    pt = {}
    for s in symbols:
        name = s.name
        if name.startswith("phi"):
            pt[name] = rng.uniform(-np.pi, np.pi, n)
        elif name.startswith("theta"):
            pt[name] = rng.uniform(0.05, np.pi - 0.05, n)
        elif name.startswith(("alpha", "gamma")):
            pt[name] = rng.uniform(-np.pi, np.pi, n)
        elif name.startswith("beta"):
            pt[name] = rng.uniform(0.05, np.pi - 0.05, n)
        elif name.startswith(R"\zeta") or name.startswith("zeta"):
            pt[name] = rng.uniform(0.05, np.pi - 0.05, n)
        else:
            pt[name] = rng.uniform(0.6, 2.4, n)
    return pt


def _blatt_weisskopf_sq(z, L: int):
    """B_L^2(z) = |h_L(1)|^2 / (z |h_L(sqrt z)|^2) from SciPy's spherical Bessel functions (z may be negative: complex sqrt)."""
    from scipy.special import spherical_jn, spherical_yn  # noqa: PLC0415
    x = np.sqrt(np.asarray(z, dtype=complex))
    with np.errstate(all="ignore"):
        # |h_L(x)|^2 as a polynomial in 1/x^2 (valid for complex x): sum_k c_k / x^(2k+2); use the closed forms for L <= 4
        def h2(xx):
            y = 1 / (xx * xx)
            return {0: y, 1: y * (1 + y), 2: y * (1 + 3 * y + 9 * y ** 2), 3: y * (1 + 6 * y + 45 * y ** 2 + 225 * y ** 3),
                    4: y * (1 + 10 * y + 135 * y ** 2 + 1575 * y ** 3 + 11025 * y ** 4)}[L]
        one = {0: 1.0, 1: 2.0, 2: 13.0, 3: 277.0, 4: 12746.0}[L]
        assert abs(one - abs(spherical_jn(L, 1.0) + 1j * spherical_yn(L, 1.0)) ** 2) < 1e-9 * one
        return one / (np.asarray(z, dtype=complex) * h2(x))


def bw_lineshape(param_values: dict):
    """Documented lineshapes in numpy for nodes whose parent is a resonance with an assigned builder: the simple relativistic
    Breit-Wigner, or - when the model carries a meson-radius parameter for that resonance - the Breit-Wigner with form factor and
    energy-dependent width, with the orbital angular momentum *of that node* (L of the transition; the parent's integer spin where
    the transition has none)."""
    def fn(info, point):
        part = info["parent_particle"]
        ident = part.latex or part.name
        key_m, key_g, key_d = f"m_{{{ident}}}", Rf"\Gamma_{{{ident}}}", f"d_{{{ident}}}"
        if key_m not in param_values:
            return 1.0
        m0, g0 = param_values[key_m], param_values[key_g]
        s = np.asarray(point[info["m_parent"]]) ** 2
        if key_d not in param_values:
            return g0 * m0 / (m0 ** 2 - s - 1j * g0 * m0)
        d = param_values[key_d]
        L = int(info["L"]) if info["L"] is not None else int(info["J"])
        ma, mb = np.asarray(point[info["m_h"]]), np.asarray(point[info["m_o"]])
        with np.errstate(all="ignore"):
            def q2(sv):
                return (sv - (ma + mb) ** 2) * (sv - (ma - mb) ** 2) / (4 * sv)

            def rho(sv):
                return 2 * np.sqrt(np.asarray(q2(sv), dtype=complex)) / np.sqrt(np.asarray(sv, dtype=complex))
            ff2 = _blatt_weisskopf_sq(q2(s) * d ** 2, L)
            ff2_0 = _blatt_weisskopf_sq(q2(m0 ** 2 + 0 * s) * d ** 2, L)
            width = g0 * (ff2 / ff2_0) * rho(s) / rho(m0 ** 2 + 0 * s)
            return np.sqrt(ff2) * g0 * m0 / (m0 ** 2 - s - 1j * width * m0)
    return fn
